// Package time is the virtual-time replacement of the standard time package for the
// instrumented build. Types without behaviour are aliases of the real ones.
package time

import (
	std "time"

	"github.com/joeycumines/go-bigbuff/internal/v/vrt"
)

type (
	Duration   = std.Duration
	Time       = std.Time
	Month      = std.Month
	Weekday    = std.Weekday
	Location   = std.Location
	ParseError = std.ParseError
)

const (
	Nanosecond  = std.Nanosecond
	Microsecond = std.Microsecond
	Millisecond = std.Millisecond
	Second      = std.Second
	Minute      = std.Minute
	Hour        = std.Hour

	Layout      = std.Layout
	ANSIC       = std.ANSIC
	UnixDate    = std.UnixDate
	RubyDate    = std.RubyDate
	RFC822      = std.RFC822
	RFC822Z     = std.RFC822Z
	RFC850      = std.RFC850
	RFC1123     = std.RFC1123
	RFC1123Z    = std.RFC1123Z
	RFC3339     = std.RFC3339
	RFC3339Nano = std.RFC3339Nano
	Kitchen     = std.Kitchen
	Stamp       = std.Stamp
	StampMilli  = std.StampMilli
	StampMicro  = std.StampMicro
	StampNano   = std.StampNano
	DateTime    = std.DateTime
	DateOnly    = std.DateOnly
	TimeOnly    = std.TimeOnly

	January   = std.January
	February  = std.February
	March     = std.March
	April     = std.April
	May       = std.May
	June      = std.June
	July      = std.July
	August    = std.August
	September = std.September
	October   = std.October
	November  = std.November
	December  = std.December

	Sunday    = std.Sunday
	Monday    = std.Monday
	Tuesday   = std.Tuesday
	Wednesday = std.Wednesday
	Thursday  = std.Thursday
	Friday    = std.Friday
	Saturday  = std.Saturday
)

var (
	UTC   = std.UTC
	Local = std.Local

	Date                   = std.Date
	Unix                   = std.Unix
	UnixMilli              = std.UnixMilli
	UnixMicro              = std.UnixMicro
	Parse                  = std.Parse
	ParseInLocation        = std.ParseInLocation
	ParseDuration          = std.ParseDuration
	FixedZone              = std.FixedZone
	LoadLocation           = std.LoadLocation
	LoadLocationFromTZData = std.LoadLocationFromTZData
)

func Now() Time { return vrt.Now() }

func Since(t Time) Duration { return Now().Sub(t) }

func Until(t Time) Duration { return t.Sub(Now()) }

func Sleep(d Duration) { vrt.Sleep(d) }

type Timer struct {
	C <-chan Time
	r *vrt.TimerState
}

func NewTimer(d Duration) *Timer {
	r := vrt.NewTimer(d, 0, nil)
	return &Timer{C: r.C, r: r}
}

func AfterFunc(d Duration, f func()) *Timer {
	return &Timer{r: vrt.NewTimer(d, 0, f)}
}

func After(d Duration) <-chan Time { return NewTimer(d).C }

func (t *Timer) Stop() bool {
	if t.r == nil {
		panic("time: Stop called on uninitialized Timer")
	}
	return t.r.Stop()
}

func (t *Timer) Reset(d Duration) bool {
	if t.r == nil {
		panic("time: Reset called on uninitialized Timer")
	}
	return t.r.Reset(d)
}

type Ticker struct {
	C <-chan Time
	r *vrt.TimerState
}

func NewTicker(d Duration) *Ticker {
	if d <= 0 {
		panic("non-positive interval for NewTicker")
	}
	r := vrt.NewTimer(d, d, nil)
	return &Ticker{C: r.C, r: r}
}

func Tick(d Duration) <-chan Time {
	if d <= 0 {
		return nil
	}
	return NewTicker(d).C
}

func (t *Ticker) Stop() {
	if t.r != nil {
		t.r.Stop()
	}
}

func (t *Ticker) Reset(d Duration) {
	if d <= 0 {
		panic("non-positive interval for Ticker.Reset")
	}
	if t.r == nil {
		panic("time: Reset called on uninitialized Ticker")
	}
	t.r.ResetPeriod(d)
}
