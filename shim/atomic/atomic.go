// Package atomic is the scheduler-owned replacement of sync/atomic: every operation is a
// scheduling point followed by the real atomic operation on the real word.
package atomic

import (
	std "sync/atomic"
	"unsafe"

	"github.com/joeycumines/go-bigbuff/internal/v/vrt"
)

// Words used through the function API have no inline header; they share one model object per
// address class (the point is what matters, the identity is only used for traces).
var anon vrt.AtomicState

func pt(write bool) { vrt.AtomicPoint(&anon, write) }

type Int32 struct {
	st vrt.AtomicState
	v  std.Int32
}

func (x *Int32) Load() int32           { vrt.AtomicPoint(&x.st, false); return x.v.Load() }
func (x *Int32) Store(val int32)       { vrt.AtomicPoint(&x.st, true); x.v.Store(val) }
func (x *Int32) Swap(new int32) int32  { vrt.AtomicPoint(&x.st, true); return x.v.Swap(new) }
func (x *Int32) Add(delta int32) int32 { vrt.AtomicPoint(&x.st, true); return x.v.Add(delta) }
func (x *Int32) And(mask int32) int32  { vrt.AtomicPoint(&x.st, true); return x.v.And(mask) }
func (x *Int32) Or(mask int32) int32   { vrt.AtomicPoint(&x.st, true); return x.v.Or(mask) }
func (x *Int32) CompareAndSwap(old, new int32) bool {
	vrt.AtomicPoint(&x.st, true)
	return x.v.CompareAndSwap(old, new)
}

func LoadInt32(addr *int32) int32             { pt(false); return std.LoadInt32(addr) }
func StoreInt32(addr *int32, val int32)       { pt(true); std.StoreInt32(addr, val) }
func SwapInt32(addr *int32, new int32) int32  { pt(true); return std.SwapInt32(addr, new) }
func AddInt32(addr *int32, delta int32) int32 { pt(true); return std.AddInt32(addr, delta) }
func AndInt32(addr *int32, mask int32) int32  { pt(true); return std.AndInt32(addr, mask) }
func OrInt32(addr *int32, mask int32) int32   { pt(true); return std.OrInt32(addr, mask) }
func CompareAndSwapInt32(addr *int32, old, new int32) bool {
	pt(true)
	return std.CompareAndSwapInt32(addr, old, new)
}

type Int64 struct {
	st vrt.AtomicState
	v  std.Int64
}

func (x *Int64) Load() int64           { vrt.AtomicPoint(&x.st, false); return x.v.Load() }
func (x *Int64) Store(val int64)       { vrt.AtomicPoint(&x.st, true); x.v.Store(val) }
func (x *Int64) Swap(new int64) int64  { vrt.AtomicPoint(&x.st, true); return x.v.Swap(new) }
func (x *Int64) Add(delta int64) int64 { vrt.AtomicPoint(&x.st, true); return x.v.Add(delta) }
func (x *Int64) And(mask int64) int64  { vrt.AtomicPoint(&x.st, true); return x.v.And(mask) }
func (x *Int64) Or(mask int64) int64   { vrt.AtomicPoint(&x.st, true); return x.v.Or(mask) }
func (x *Int64) CompareAndSwap(old, new int64) bool {
	vrt.AtomicPoint(&x.st, true)
	return x.v.CompareAndSwap(old, new)
}

func LoadInt64(addr *int64) int64             { pt(false); return std.LoadInt64(addr) }
func StoreInt64(addr *int64, val int64)       { pt(true); std.StoreInt64(addr, val) }
func SwapInt64(addr *int64, new int64) int64  { pt(true); return std.SwapInt64(addr, new) }
func AddInt64(addr *int64, delta int64) int64 { pt(true); return std.AddInt64(addr, delta) }
func AndInt64(addr *int64, mask int64) int64  { pt(true); return std.AndInt64(addr, mask) }
func OrInt64(addr *int64, mask int64) int64   { pt(true); return std.OrInt64(addr, mask) }
func CompareAndSwapInt64(addr *int64, old, new int64) bool {
	pt(true)
	return std.CompareAndSwapInt64(addr, old, new)
}

type Uint32 struct {
	st vrt.AtomicState
	v  std.Uint32
}

func (x *Uint32) Load() uint32            { vrt.AtomicPoint(&x.st, false); return x.v.Load() }
func (x *Uint32) Store(val uint32)        { vrt.AtomicPoint(&x.st, true); x.v.Store(val) }
func (x *Uint32) Swap(new uint32) uint32  { vrt.AtomicPoint(&x.st, true); return x.v.Swap(new) }
func (x *Uint32) Add(delta uint32) uint32 { vrt.AtomicPoint(&x.st, true); return x.v.Add(delta) }
func (x *Uint32) And(mask uint32) uint32  { vrt.AtomicPoint(&x.st, true); return x.v.And(mask) }
func (x *Uint32) Or(mask uint32) uint32   { vrt.AtomicPoint(&x.st, true); return x.v.Or(mask) }
func (x *Uint32) CompareAndSwap(old, new uint32) bool {
	vrt.AtomicPoint(&x.st, true)
	return x.v.CompareAndSwap(old, new)
}

func LoadUint32(addr *uint32) uint32              { pt(false); return std.LoadUint32(addr) }
func StoreUint32(addr *uint32, val uint32)        { pt(true); std.StoreUint32(addr, val) }
func SwapUint32(addr *uint32, new uint32) uint32  { pt(true); return std.SwapUint32(addr, new) }
func AddUint32(addr *uint32, delta uint32) uint32 { pt(true); return std.AddUint32(addr, delta) }
func AndUint32(addr *uint32, mask uint32) uint32  { pt(true); return std.AndUint32(addr, mask) }
func OrUint32(addr *uint32, mask uint32) uint32   { pt(true); return std.OrUint32(addr, mask) }
func CompareAndSwapUint32(addr *uint32, old, new uint32) bool {
	pt(true)
	return std.CompareAndSwapUint32(addr, old, new)
}

type Uint64 struct {
	st vrt.AtomicState
	v  std.Uint64
}

func (x *Uint64) Load() uint64            { vrt.AtomicPoint(&x.st, false); return x.v.Load() }
func (x *Uint64) Store(val uint64)        { vrt.AtomicPoint(&x.st, true); x.v.Store(val) }
func (x *Uint64) Swap(new uint64) uint64  { vrt.AtomicPoint(&x.st, true); return x.v.Swap(new) }
func (x *Uint64) Add(delta uint64) uint64 { vrt.AtomicPoint(&x.st, true); return x.v.Add(delta) }
func (x *Uint64) And(mask uint64) uint64  { vrt.AtomicPoint(&x.st, true); return x.v.And(mask) }
func (x *Uint64) Or(mask uint64) uint64   { vrt.AtomicPoint(&x.st, true); return x.v.Or(mask) }
func (x *Uint64) CompareAndSwap(old, new uint64) bool {
	vrt.AtomicPoint(&x.st, true)
	return x.v.CompareAndSwap(old, new)
}

func LoadUint64(addr *uint64) uint64              { pt(false); return std.LoadUint64(addr) }
func StoreUint64(addr *uint64, val uint64)        { pt(true); std.StoreUint64(addr, val) }
func SwapUint64(addr *uint64, new uint64) uint64  { pt(true); return std.SwapUint64(addr, new) }
func AddUint64(addr *uint64, delta uint64) uint64 { pt(true); return std.AddUint64(addr, delta) }
func AndUint64(addr *uint64, mask uint64) uint64  { pt(true); return std.AndUint64(addr, mask) }
func OrUint64(addr *uint64, mask uint64) uint64   { pt(true); return std.OrUint64(addr, mask) }
func CompareAndSwapUint64(addr *uint64, old, new uint64) bool {
	pt(true)
	return std.CompareAndSwapUint64(addr, old, new)
}

type Uintptr struct {
	st vrt.AtomicState
	v  std.Uintptr
}

func (x *Uintptr) Load() uintptr             { vrt.AtomicPoint(&x.st, false); return x.v.Load() }
func (x *Uintptr) Store(val uintptr)         { vrt.AtomicPoint(&x.st, true); x.v.Store(val) }
func (x *Uintptr) Swap(new uintptr) uintptr  { vrt.AtomicPoint(&x.st, true); return x.v.Swap(new) }
func (x *Uintptr) Add(delta uintptr) uintptr { vrt.AtomicPoint(&x.st, true); return x.v.Add(delta) }
func (x *Uintptr) And(mask uintptr) uintptr  { vrt.AtomicPoint(&x.st, true); return x.v.And(mask) }
func (x *Uintptr) Or(mask uintptr) uintptr   { vrt.AtomicPoint(&x.st, true); return x.v.Or(mask) }
func (x *Uintptr) CompareAndSwap(old, new uintptr) bool {
	vrt.AtomicPoint(&x.st, true)
	return x.v.CompareAndSwap(old, new)
}

func LoadUintptr(addr *uintptr) uintptr               { pt(false); return std.LoadUintptr(addr) }
func StoreUintptr(addr *uintptr, val uintptr)         { pt(true); std.StoreUintptr(addr, val) }
func SwapUintptr(addr *uintptr, new uintptr) uintptr  { pt(true); return std.SwapUintptr(addr, new) }
func AddUintptr(addr *uintptr, delta uintptr) uintptr { pt(true); return std.AddUintptr(addr, delta) }
func AndUintptr(addr *uintptr, mask uintptr) uintptr  { pt(true); return std.AndUintptr(addr, mask) }
func OrUintptr(addr *uintptr, mask uintptr) uintptr   { pt(true); return std.OrUintptr(addr, mask) }
func CompareAndSwapUintptr(addr *uintptr, old, new uintptr) bool {
	pt(true)
	return std.CompareAndSwapUintptr(addr, old, new)
}

type Bool struct {
	st vrt.AtomicState
	v  std.Bool
}

func (x *Bool) Load() bool         { vrt.AtomicPoint(&x.st, false); return x.v.Load() }
func (x *Bool) Store(val bool)     { vrt.AtomicPoint(&x.st, true); x.v.Store(val) }
func (x *Bool) Swap(new bool) bool { vrt.AtomicPoint(&x.st, true); return x.v.Swap(new) }
func (x *Bool) CompareAndSwap(old, new bool) bool {
	vrt.AtomicPoint(&x.st, true)
	return x.v.CompareAndSwap(old, new)
}

type Pointer[T any] struct {
	st vrt.AtomicState
	v  std.Pointer[T]
}

func (x *Pointer[T]) Load() *T       { vrt.AtomicPoint(&x.st, false); return x.v.Load() }
func (x *Pointer[T]) Store(val *T)   { vrt.AtomicPoint(&x.st, true); x.v.Store(val) }
func (x *Pointer[T]) Swap(new *T) *T { vrt.AtomicPoint(&x.st, true); return x.v.Swap(new) }
func (x *Pointer[T]) CompareAndSwap(old, new *T) bool {
	vrt.AtomicPoint(&x.st, true)
	return x.v.CompareAndSwap(old, new)
}

type Value struct {
	st vrt.AtomicState
	v  std.Value
}

func (x *Value) Load() any        { vrt.AtomicPoint(&x.st, false); return x.v.Load() }
func (x *Value) Store(val any)    { vrt.AtomicPoint(&x.st, true); x.v.Store(val) }
func (x *Value) Swap(new any) any { vrt.AtomicPoint(&x.st, true); return x.v.Swap(new) }
func (x *Value) CompareAndSwap(old, new any) bool {
	vrt.AtomicPoint(&x.st, true)
	return x.v.CompareAndSwap(old, new)
}

func LoadPointer(addr *unsafe.Pointer) unsafe.Pointer       { pt(false); return std.LoadPointer(addr) }
func StorePointer(addr *unsafe.Pointer, val unsafe.Pointer) { pt(true); std.StorePointer(addr, val) }
func SwapPointer(addr *unsafe.Pointer, new unsafe.Pointer) unsafe.Pointer {
	pt(true)
	return std.SwapPointer(addr, new)
}
func CompareAndSwapPointer(addr *unsafe.Pointer, old, new unsafe.Pointer) bool {
	pt(true)
	return std.CompareAndSwapPointer(addr, old, new)
}
