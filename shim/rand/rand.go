// Package rand replaces math/rand in the instrumented build: every draw is an environment
// answer owned by the explorer (default 0; a boundary alphabet when the scenario enumerates
// random answers), and the request is logged so oracles can check the requested range.
package rand

import (
	std "math/rand"

	"github.com/joeycumines/go-bigbuff/internal/v/vrt"
)

type (
	Rand   = std.Rand
	Source = std.Source
)

var (
	New       = std.New
	NewSource = std.NewSource
)

func Int63n(n int64) int64 {
	if n <= 0 {
		panic("invalid argument to Int63n")
	}
	return vrt.RandInt63n(n)
}

func Int31n(n int32) int32 {
	if n <= 0 {
		panic("invalid argument to Int31n")
	}
	return int32(vrt.RandInt63n(int64(n)))
}

func Intn(n int) int {
	if n <= 0 {
		panic("invalid argument to Intn")
	}
	return int(vrt.RandInt63n(int64(n)))
}

func Int63() int64   { return vrt.RandInt63n(1 << 62) }
func Int31() int32   { return int32(vrt.RandInt63n(1 << 31)) }
func Int() int       { return int(vrt.RandInt63n(1 << 62)) }
func Uint32() uint32 { return uint32(vrt.RandInt63n(1 << 32)) }
func Uint64() uint64 { return uint64(vrt.RandInt63n(1 << 62)) }
func Float64() float64 {
	return float64(vrt.RandInt63n(1<<53)) / (1 << 53)
}
func Float32() float32 { return float32(vrt.RandInt63n(1<<24)) / (1 << 24) }
func Seed(int64)       {}
func Perm(n int) []int {
	p := make([]int, n)
	for i := range p {
		p[i] = i
	}
	return p
}
func Shuffle(n int, swap func(i, j int)) {}
