// Package sync is the scheduler-owned replacement of the standard sync package for the
// instrumented build: same exported API, blocking behaviour decided by vrt.
package sync

import (
	stdsync "sync"
	"sync/atomic"

	"github.com/joeycumines/go-bigbuff/internal/v/vrt"
)

type Locker = stdsync.Locker
type Map = stdsync.Map
type Pool = stdsync.Pool

type Mutex struct {
	st   vrt.MutexState
	real stdsync.Mutex
}

func (m *Mutex) Lock() {
	if !vrt.MutexLock(&m.st) || vrt.RaceBuild {
		m.real.Lock()
	}
}

func (m *Mutex) Unlock() {
	if !vrt.MutexUnlock(&m.st) || vrt.RaceBuild {
		m.real.Unlock()
	}
}

func (m *Mutex) TryLock() bool {
	managed, ok := vrt.MutexTryLock(&m.st)
	if !managed {
		return m.real.TryLock()
	}
	if ok && vrt.RaceBuild {
		m.real.Lock()
	}
	return ok
}

type RWMutex struct {
	st   vrt.RWState
	real stdsync.RWMutex
}

func (m *RWMutex) Lock() {
	if !vrt.RWLock(&m.st) || vrt.RaceBuild {
		m.real.Lock()
	}
}

func (m *RWMutex) Unlock() {
	if vrt.Managed() {
		// release the real lock first so that it is free whenever the model says so
		if vrt.RaceBuild {
			m.real.Unlock()
		}
		vrt.RWUnlock(&m.st)
		return
	}
	m.real.Unlock()
}

func (m *RWMutex) RLock() {
	if !vrt.RWRLock(&m.st) || vrt.RaceBuild {
		m.real.RLock()
	}
}

func (m *RWMutex) RUnlock() {
	if vrt.Managed() {
		if vrt.RaceBuild {
			m.real.RUnlock()
		}
		vrt.RWRUnlock(&m.st)
		return
	}
	m.real.RUnlock()
}

func (m *RWMutex) TryRLock() bool {
	managed, ok := vrt.RWTryRLock(&m.st)
	if !managed {
		return m.real.TryRLock()
	}
	if ok && vrt.RaceBuild {
		m.real.RLock()
	}
	return ok
}

func (m *RWMutex) TryLock() bool {
	managed, ok := vrt.RWTryLock(&m.st)
	if !managed {
		return m.real.TryLock()
	}
	if ok && vrt.RaceBuild {
		m.real.Lock()
	}
	return ok
}

type rlocker RWMutex

func (r *rlocker) Lock()   { (*RWMutex)(r).RLock() }
func (r *rlocker) Unlock() { (*RWMutex)(r).RUnlock() }

func (m *RWMutex) RLocker() Locker { return (*rlocker)(m) }

// Cond has no happens-before edge of its own (as sync.Cond).
type Cond struct {
	L    Locker
	st   vrt.CondState
	real *stdsync.Cond
}

func NewCond(l Locker) *Cond { return &Cond{L: l} }

func (c *Cond) Wait() {
	if !vrt.CondRegister(&c.st) {
		if c.real == nil {
			c.real = stdsync.NewCond(c.L)
		}
		c.real.Wait()
		return
	}
	c.L.Unlock()
	vrt.CondPark(&c.st)
	c.L.Lock()
}

func (c *Cond) Signal() {
	if !vrt.CondSignal(&c.st) && c.real != nil {
		c.real.Signal()
	}
}

func (c *Cond) Broadcast() {
	if !vrt.CondBroadcast(&c.st) && c.real != nil {
		c.real.Broadcast()
	}
}

type WaitGroup struct {
	st   vrt.WGState
	real stdsync.WaitGroup
}

func (w *WaitGroup) Add(delta int) {
	if vrt.Managed() {
		vrt.WGAdd(&w.st, delta)
		if vrt.RaceBuild {
			w.real.Add(delta)
		}
		return
	}
	w.real.Add(delta)
}

func (w *WaitGroup) Done() { w.Add(-1) }

func (w *WaitGroup) Wait() {
	if !vrt.WGWait(&w.st) || vrt.RaceBuild {
		w.real.Wait()
	}
}

// Once mirrors the standard implementation on top of the shim primitives.
type Once struct {
	done vrt.AtomicState
	d    uint32
	m    Mutex
}

func (o *Once) Do(f func()) {
	vrt.AtomicPoint(&o.done, false)
	if atomic.LoadUint32(&o.d) == 0 {
		o.doSlow(f)
	}
}

func (o *Once) doSlow(f func()) {
	o.m.Lock()
	defer o.m.Unlock()
	vrt.AtomicPoint(&o.done, false)
	if atomic.LoadUint32(&o.d) == 0 {
		defer func() {
			vrt.AtomicPoint(&o.done, true)
			atomic.StoreUint32(&o.d, 1)
		}()
		f()
	}
}

func OnceFunc(f func()) func() {
	var once Once
	var valid bool
	var p any
	g := func() {
		defer func() {
			p = recover()
			if !valid {
				panic(p)
			}
		}()
		f()
		f = nil
		valid = true
	}
	return func() {
		once.Do(g)
		if !valid {
			panic(p)
		}
	}
}

func OnceValue[T any](f func() T) func() T {
	var once Once
	var valid bool
	var p any
	var result T
	g := func() {
		defer func() {
			p = recover()
			if !valid {
				panic(p)
			}
		}()
		result = f()
		f = nil
		valid = true
	}
	return func() T {
		once.Do(g)
		if !valid {
			panic(p)
		}
		return result
	}
}

func OnceValues[T1, T2 any](f func() (T1, T2)) func() (T1, T2) {
	var once Once
	var valid bool
	var p any
	var r1 T1
	var r2 T2
	g := func() {
		defer func() {
			p = recover()
			if !valid {
				panic(p)
			}
		}()
		r1, r2 = f()
		f = nil
		valid = true
	}
	return func() (T1, T2) {
		once.Do(g)
		if !valid {
			panic(p)
		}
		return r1, r2
	}
}
