package vrt

import (
	"fmt"
	"reflect"
	"runtime"
	"strings"
	"time"
	"unsafe"
)

const maxThreads = 96

// Options of one scenario (fixed for all its executions).
type Options struct {
	MaxSteps      int  // step horizon per execution (default 20000)
	MaxTimerFires int  // horizon on clock-advance events (default 40)
	MapPerm       bool // enumerate map iteration orders (default: insertion order only)
	RandAll       bool // enumerate rand answers from the boundary alphabet (default: 0 only)
	TimerDevFree  bool // timer events cost no deviation (small virtual-time scenarios)
	Delay         bool // delay bounding: choosing a thread costs the number of enabled threads skipped in round-robin order (default: preemption bounding, non-preempting switches free)
	PostUnlock    bool // an extra scheduling point right after every Unlock / RUnlock (windows that follow a critical section)
	Sites         bool // record the call site of every parked operation (for Threads)
	SpinLimit     int  // forced un-gatings of yielded threads before "livelock" (default 30)
}

type DPoint struct {
	N      int32   // number of transitions
	Chosen int32   // index taken
	Sig    uint32  // (thread id, op kind) of the first transition, for divergence detection
	Costs  []uint8 // deviation cost of each alternative
}

type trans struct {
	t     *thread
	arm   int32
	p     *thread // rendezvous partner
	parm  int32
	timer bool
	cost  uint8
}

type Status int

const (
	StOK Status = iota
	StDeadlock
	StLivelock
	StSteps
)

func (s Status) String() string {
	return [...]string{"ok", "deadlock", "livelock", "step-horizon"}[s]
}

type Exec struct {
	schedHand
	epoch    uint32
	threads  []*thread
	nthreads int
	cur      *thread // holds the token (nil while the scheduler decides)
	last     *thread // ran last
	nextObj  int32
	clock    int64
	seq      int64
	timers   []*TimerState
	ntimers  int
	closed   map[unsafe.Pointer]struct{}
	mapList  []*mapOrder
	joinCh   chan struct{}

	opts   Options
	prefix []int32
	expect []uint32
	points []DPoint
	trs    []trans
	rank   [maxThreads]int

	steps      int
	evals      int64
	timerFires int
	earlyFires int // timer events taken while some thread was enabled
	spins      int
	status     Status
	horizon    bool // the timer horizon was reached with timers still pending
	diverged   string
	stateHash  uint64
	states     map[uint64]struct{} // optional: distinct state keys seen (shared across executions)
	trace      *[]string           // optional: human-readable trace
}

var epochCounter uint32

const epochBase = int64(1_700_000_000) * int64(time.Second)

// Result is what an oracle sees of one finished execution.
type Result struct {
	Events     []Event
	Status     Status
	Horizon    bool
	Blocked    []string // unfinished harness threads and what they wait for
	Panics     []PanicInfo
	Leaked     []string // library threads still alive at quiescence (by spawn site)
	Clock      time.Duration
	TimerFires int
	EarlyFires int // timer events that fired although a thread was runnable (a deviation)
	Steps      int
	Threads    int
}

type PanicInfo struct {
	Thread  string
	Harness bool
	Msg     string
	Stack   string
}

// runOne executes main under the scheduler following prefix, then default choices.
func runOne(opts Options, prefix []int32, expect []uint32, main func(), states map[uint64]struct{}, trace *[]string) (*Exec, *Result) {
	if opts.MaxSteps == 0 {
		opts.MaxSteps = 6000
	}
	if opts.MaxTimerFires == 0 {
		opts.MaxTimerFires = 40
	}
	if opts.SpinLimit == 0 {
		opts.SpinLimit = 30
	}
	epochCounter++
	x := &Exec{epoch: epochCounter, opts: opts, prefix: prefix, expect: expect, states: states, trace: trace}
	x.threads = make([]*thread, maxThreads)
	x.closed = map[unsafe.Pointer]struct{}{}
	x.joinCh = make(chan struct{}, maxThreads)
	x.schedHand.init()
	t0 := &thread{x: x, name: "0", harness: true, op: OpStart}
	t0.hand.init()
	x.addThread(t0)
	curX = x
	go t0.main(main)
	x.loop()
	res := x.finish()
	curX = nil
	return x, res
}

//go:norace
func (x *Exec) loop() {
	for {
		x.transitions()
		if len(x.trs) == 0 {
			if x.ungate() {
				continue
			}
			break
		}
		if x.steps >= x.opts.MaxSteps {
			x.status = StSteps
			return
		}
		// decide
		i := len(x.points)
		choice := int32(0)
		if i < len(x.prefix) {
			choice = x.prefix[i]
			if int(choice) >= len(x.trs) {
				x.diverged = fmt.Sprintf("replay divergence at point %d: choice %d of %d", i, choice, len(x.trs))
				x.status = StSteps
				return
			}
		}
		sig := x.sig(&x.trs[0])
		if i < len(x.expect) && x.expect[i] != sig {
			x.diverged = fmt.Sprintf("replay divergence at point %d: signature %x, expected %x", i, sig, x.expect[i])
			x.status = StSteps
			return
		}
		p := DPoint{N: int32(len(x.trs)), Chosen: choice, Sig: sig}
		if len(x.trs) > 1 {
			p.Costs = make([]uint8, len(x.trs))
			for k := range x.trs {
				p.Costs[k] = x.trs[k].cost
			}
		}
		x.points = append(x.points, p)
		tr := x.trs[choice]
		x.steps++
		x.step(&tr)
	}
	// quiescent: classify
	for i := 0; i < x.nthreads; i++ {
		t := x.threads[i]
		if !t.finished && t.harness {
			x.status = StDeadlock
			if x.spins > 0 {
				x.status = StLivelock
			}
			if x.horizon {
				// timers were still pending when the timer-event horizon was reached: the program
				// might have gone on; inconclusive rather than a deadlock
				x.status = StSteps
			}
		}
	}
}

//go:norace
func (x *Exec) sig(tr *trans) uint32 {
	if tr.timer {
		return 0xffff0000
	}
	return uint32(tr.t.id)<<8 | uint32(tr.t.op)
}

// ungate clears the yielded flags when only yielded threads are left; reports whether that
// may have enabled something. Too many forced un-gatings in one execution is a livelock.
//
//go:norace
func (x *Exec) ungate() bool {
	any := false
	for i := 0; i < x.nthreads; i++ {
		t := x.threads[i]
		if !t.finished && t.yielded {
			any = true
		}
	}
	if !any {
		return false
	}
	x.spins++
	if x.spins > x.opts.SpinLimit {
		return false
	}
	for i := 0; i < x.nthreads; i++ {
		x.threads[i].yielded = false
	}
	return true
}

type chanInfo struct {
	ptr    unsafe.Pointer
	cap    int
	len    int
	closed bool
	isNil  bool
}

//go:norace
func (x *Exec) chanInfo(v reflect.Value) (ci chanInfo) {
	if !v.IsValid() || v.IsNil() {
		ci.isNil = true
		return
	}
	ci.ptr = v.UnsafePointer()
	ci.cap = v.Cap()
	ci.len = v.Len()
	if _, ok := x.closed[ci.ptr]; ok {
		ci.closed = true
	} else if preclosedHas(ci.ptr) {
		ci.closed = true
	}
	return
}

//go:norace
func isChanOp(op OpKind) bool { return op == OpChanSend || op == OpChanRecv || op == OpSelect }

// transitions computes the enabled transitions in canonical order into x.trs.
//
//go:norace
func (x *Exec) transitions() {
	x.trs = x.trs[:0]
	// canonical order: the thread that ran last first, then the others by id - ascending from 0
	// (preemption bounding) or cyclically after the last thread (delay bounding: round robin)
	order := make([]*thread, 0, x.nthreads)
	start := 0
	if x.last != nil {
		if !x.last.finished {
			order = append(order, x.last)
		}
		if x.opts.Delay {
			start = x.last.id + 1
		}
	}
	for k := 0; k < x.nthreads; k++ {
		t := x.threads[(start+k)%x.nthreads]
		if t.finished || t == x.last {
			continue
		}
		order = append(order, t)
	}
	for r, t := range order {
		x.rank[t.id] = r
	}
	lastEnabled := false
	nEnabled := 0 // threads with at least one transition, so far
	for _, t := range order {
		if t.yielded {
			continue
		}
		n0 := len(x.trs)
		if isChanOp(t.op) {
			x.chanTrans(t, order)
		} else if t.op == OpChoose {
			for k := 0; k < t.n; k++ {
				c := uint8(0)
				if k > 0 {
					c = t.ccost
				}
				x.trs = append(x.trs, trans{t: t, arm: int32(k), cost: c})
			}
		} else if x.enabled(t) {
			x.trs = append(x.trs, trans{t: t, arm: -1})
		}
		if len(x.trs) > n0 {
			if t == x.last {
				lastEnabled = true
			}
			if x.opts.Delay {
				for i := n0; i < len(x.trs); i++ {
					x.trs[i].cost += uint8(nEnabled)
				}
			}
			nEnabled++
		}
	}
	if lastEnabled && !x.opts.Delay {
		for i := range x.trs {
			if x.trs[i].t != x.last {
				x.trs[i].cost++
			}
		}
	}
	// clock advance / timer fire
	if x.timerFires < x.opts.MaxTimerFires {
		if _, ok := x.nextDeadline(); ok {
			c := uint8(0)
			if len(x.trs) > 0 && !x.opts.TimerDevFree {
				c = 1
			}
			x.trs = append(x.trs, trans{timer: true, cost: c})
		}
	} else if _, ok := x.nextDeadline(); ok {
		x.horizon = true
	}
}

//go:norace
func (x *Exec) enabled(t *thread) bool {
	switch t.op {
	case OpMutexLock:
		return !(*MutexState)(t.obj).locked
	case OpRWLock:
		return !(*RWState)(t.obj).w
	case OpRWDrain:
		return (*RWState)(t.obj).readers == 0
	case OpRWRLock:
		return !(*RWState)(t.obj).announced
	case OpCondPark:
		return t.condNotified
	case OpWGWait:
		return (*WGState)(t.obj).n == 0
	case OpSleep:
		return x.clock >= t.deadline
	}
	return true
}

//go:norace
func (x *Exec) chanTrans(t *thread, order []*thread) {
	definite := false
	n0 := len(x.trs)
	for i := range t.cases {
		c := &t.cases[i]
		ci := x.chanInfo(c.Ch)
		if ci.isNil {
			continue
		}
		if ci.closed {
			// recv: (zero,false); send: the real operation panics, as in Go
			x.trs = append(x.trs, trans{t: t, arm: int32(i)})
			definite = true
			continue
		}
		if ci.cap > 0 {
			if (c.Send && ci.len < ci.cap) || (!c.Send && ci.len > 0) {
				x.trs = append(x.trs, trans{t: t, arm: int32(i)})
				definite = true
			}
			continue
		}
		// unbuffered: rendezvous with a parked partner
		for _, u := range order {
			if u == t || !isChanOp(u.op) || u.yielded {
				continue
			}
			if t.op == OpSelect && t.hasDef && u.op == OpSelect && u.hasDef {
				continue // two non-blocking selects can never meet
			}
			for j := range u.cases {
				d := &u.cases[j]
				if d.Send == c.Send || !d.Ch.IsValid() || d.Ch.IsNil() || d.Ch.UnsafePointer() != ci.ptr {
					continue
				}
				if x.rank[u.id] < x.rank[t.id] {
					// listed under u; but it still makes t "possibly ready"
					continue
				}
				x.trs = append(x.trs, trans{t: t, arm: int32(i), p: u, parm: int32(j)})
			}
		}
	}
	if t.op == OpSelect && t.hasDef && !definite {
		x.trs = append(x.trs, trans{t: t, arm: -1})
	}
	_ = n0
}

//go:norace
func (x *Exec) nextDeadline() (int64, bool) {
	best, ok := int64(0), false
	for i := 0; i < x.ntimers; i++ {
		tm := x.timers[i]
		if tm.active && (!ok || tm.when < best) {
			best, ok = tm.when, true
		}
	}
	for i := 0; i < x.nthreads; i++ {
		t := x.threads[i]
		if !t.finished && t.op == OpSleep && t.deadline > x.clock && (!ok || t.deadline < best) {
			best, ok = t.deadline, true
		}
	}
	return best, ok
}

// step applies the model effect of tr and lets the thread(s) run until they park again.
//
//go:norace
func (x *Exec) step(tr *trans) {
	if tr.timer {
		if len(x.trs) > 1 { // some thread could have run instead
			x.earlyFires++
		}
		x.fireTimer()
		for i := 0; i < x.nthreads; i++ {
			x.threads[i].yielded = false
		}
		return
	}
	t := tr.t
	x.apply(t, tr)
	for i := 0; i < x.nthreads; i++ {
		if u := x.threads[i]; u != t {
			u.yielded = false
		}
	}
	if x.trace != nil {
		x.traceStep(tr)
	}
	x.last = t
	x.cur = t
	if tr.p != nil {
		p := tr.p
		p.sel = int(tr.parm)
		p.passive = true
		p.hand.release()
		t.hand.release()
		x.awaitParked(2, p, t)
	} else {
		t.hand.release()
		x.awaitParked(1, t)
	}
	x.cur = nil
}

//go:norace
func (x *Exec) apply(t *thread, tr *trans) {
	t.hist = t.hist*1099511628211 ^ uint64(t.op)<<32 ^ uint64(uint32(t.objID))<<8 ^ uint64(uint8(tr.arm))
	if tr.p != nil {
		tr.p.hist = tr.p.hist*1099511628211 ^ uint64(tr.p.op)<<32 ^ uint64(uint8(tr.parm)) ^ 0x9e3779b97f4a7c15
	}
	switch t.op {
	case OpMutexLock:
		(*MutexState)(t.obj).locked = true
	case OpMutexUnlock:
		m := (*MutexState)(t.obj)
		t.ok = m.locked
		m.locked = false
	case OpMutexTryLock:
		m := (*MutexState)(t.obj)
		t.ok = !m.locked
		if t.ok {
			m.locked = true
		} else {
			t.yielded = true
		}
	case OpRWLock:
		(*RWState)(t.obj).w = true
	case OpRWAnnounce:
		(*RWState)(t.obj).announced = true
	case OpRWUnlock:
		m := (*RWState)(t.obj)
		t.ok = m.w && m.announced
		m.w, m.announced = false, false
	case OpRWRLock:
		(*RWState)(t.obj).readers++
	case OpRWRUnlock:
		m := (*RWState)(t.obj)
		t.ok = m.readers > 0
		if t.ok {
			m.readers--
		}
	case OpRWTryRLock:
		m := (*RWState)(t.obj)
		t.ok = !m.announced
		if t.ok {
			m.readers++
		} else {
			t.yielded = true
		}
	case OpRWTryLock:
		m := (*RWState)(t.obj)
		t.ok = !m.w && m.readers == 0
		if t.ok {
			m.w, m.announced = true, true
		} else {
			t.yielded = true
		}
	case OpCondReg:
		c := (*CondState)(t.obj)
		c.waiters = append(c.waiters, t)
		t.condNotified = false
	case OpCondSignal:
		c := (*CondState)(t.obj)
		if len(c.waiters) > 0 {
			c.waiters[0].condNotified = true
			c.waiters = c.waiters[1:]
		}
	case OpCondBroadcast:
		c := (*CondState)(t.obj)
		for _, w := range c.waiters {
			w.condNotified = true
		}
		c.waiters = nil
	case OpWGAdd:
		w := (*WGState)(t.obj)
		w.n += t.n
		t.ok = w.n >= 0
	case OpChanSend, OpChanRecv, OpSelect:
		t.sel = int(tr.arm)
		t.passive = false
	case OpChanClose:
		ci := x.chanInfo(t.cases[0].Ch)
		if !ci.isNil {
			x.closed[ci.ptr] = struct{}{}
		}
	case OpChoose:
		t.sel = int(tr.arm)
	case OpYield:
		t.yielded = true
	case OpTimerNew:
		x.timerNew(t.tm, t.deadline)
	case OpTimerStop:
		t.ok = x.timerStop(t.tm)
	case OpTimerReset:
		t.ok = x.timerStop(t.tm)
		t.tm.when = x.clock + t.deadline
		t.tm.active = true
	}
	x.stateHash ^= t.hist
	if x.states != nil && len(x.states) < 4_000_000 {
		x.states[x.stateKey()] = struct{}{}
	}
}

// stateKey: hash of all thread histories (each folds op kind, object id, choice). Two prefixes
// with equal keys executed the same per-thread operation sequences on the same objects.
//
//go:norace
func (x *Exec) stateKey() uint64 {
	h := uint64(14695981039346656037)
	for i := 0; i < x.nthreads; i++ {
		h = (h ^ x.threads[i].hist) * 1099511628211
	}
	return h ^ uint64(x.clock)
}

// finish aborts whatever is still parked, joins every thread and builds the Result.
func (x *Exec) finish() *Result {
	res := &Result{Status: x.status, Horizon: x.horizon, Clock: time.Duration(x.clock), TimerFires: x.timerFires, EarlyFires: x.earlyFires, Steps: x.steps, Threads: x.nthreads}
	// describe before aborting
	for i := 0; i < x.nthreadsNR(); i++ {
		t := x.threads[i]
		if x.finishedNR(t) {
			continue
		}
		d := x.describe(t)
		if t.harness {
			res.Blocked = append(res.Blocked, d)
		} else {
			res.Leaked = append(res.Leaked, d)
		}
	}
	x.abortAll()
	n := x.nthreadsNR()
	if raceBuild {
		for i := 0; i < n; i++ {
			<-x.joinCh
		}
	}
	for i := 0; i < n; i++ {
		t := x.threads[i]
		if t.panicked {
			res.Panics = append(res.Panics, PanicInfo{Thread: t.name, Harness: t.harness, Msg: fmt.Sprint(t.panicVal), Stack: t.panicStack})
		}
		res.Events = append(res.Events, t.log...)
	}
	sortEvents(res.Events)
	return res
}

//go:norace
func (x *Exec) nthreadsNR() int { return x.nthreads }

//go:norace
func (x *Exec) finishedNR(t *thread) bool { return t.finished }

//go:norace
func (x *Exec) abortAll() {
	// threads may spawn nothing while aborting, but iterate defensively
	for i := 0; i < x.nthreads; i++ {
		t := x.threads[i]
		if t.finished {
			continue
		}
		t.abort = true
		x.cur = t
		t.hand.release()
		x.awaitParked(1, t)
		x.cur = nil
		if !t.finished {
			panic(engineError("thread did not terminate on abort: " + t.name))
		}
	}
}

//go:norace
func (x *Exec) describe(t *thread) string {
	site := "?"
	if t.spawnPC != 0 {
		if f := runtime.FuncForPC(t.spawnPC - 1); f != nil {
			file, line := f.FileLine(t.spawnPC - 1)
			if k := strings.LastIndexByte(file, '/'); k >= 0 {
				file = file[k+1:]
			}
			site = fmt.Sprintf("%s:%d", file, line)
		}
	}
	return fmt.Sprintf("thread %s (spawned at %s) waiting in %s", t.name, site, t.op)
}

//go:norace
func (x *Exec) traceStep(tr *trans) {
	t := tr.t
	s := fmt.Sprintf("#%d T%s %s", x.steps, t.name, t.op)
	if t.objID != 0 && t.obj != nil {
		s += fmt.Sprintf(" obj%d", t.objID)
	}
	if isChanOp(t.op) {
		s += fmt.Sprintf(" arm=%d", tr.arm)
		if tr.arm >= 0 && int(tr.arm) < len(t.cases) {
			s += fmt.Sprintf(" ch=%x", uintptr(t.cases[tr.arm].Ch.UnsafePointer())&0xffffff)
		}
	}
	if t.op == OpChoose {
		s += fmt.Sprintf(" -> %d of %d", tr.arm, t.n)
	}
	if tr.p != nil {
		s += fmt.Sprintf(" <-> T%s arm=%d", tr.p.name, tr.parm)
	}
	if tr.cost > 0 {
		s += fmt.Sprintf(" [dev+%d]", tr.cost)
	}
	if t.site != "" {
		s += "   @ " + t.site
	}
	*x.trace = append(*x.trace, s)
}
