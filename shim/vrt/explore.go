package vrt

import (
	"encoding/json"
	"fmt"
	"hash/fnv"
	"os"
	"sort"
	"strconv"
	"strings"
	"time"
)

// Scenario is one closed driver program plus its oracle.
type Scenario struct {
	Name  string
	Props []string // property ids it decides
	Opts  Options
	Run   func()                 // harness thread 0 (instrumented code)
	Check func(r *Result) string // "" = fine; otherwise "<signature>: explanation"
	// Props entries are "Cnn" or "Cnn:prefix1,prefix2" (the property only owns violations whose
	// signature starts with one of the prefixes; an entry without filter owns the rest).
	Quick    int // deviation bound of the quick tier
	Thorough int // deviation bound of the thorough tier
	Level    int // shard level for the thorough tier (default 2)
	Desc     string
	Heavy    bool     // many executions per bound: the race tier's quick run stays at bound 0
	Expect   []string // litmus scenarios: the complete set of OUTCOME labels over all schedules
}

var registry = map[string]*Scenario{}
var regOrder []string

func Register(s *Scenario) {
	if _, dup := registry[s.Name]; dup {
		panic("duplicate scenario " + s.Name)
	}
	registry[s.Name] = s
	regOrder = append(regOrder, s.Name)
}

func Scenarios() []string { return append([]string(nil), regOrder...) }

func Lookup(name string) *Scenario { return registry[name] }

// Violation is a confirmed failure of an oracle on one schedule.
type Violation struct {
	Scenario  string   `json:"scenario"`
	Signature string   `json:"signature"`
	Message   string   `json:"message"`
	Devs      int      `json:"deviations"`
	Bound     int      `json:"bound"`
	Choices   []int32  `json:"choices"`
	Trace     []string `json:"trace,omitempty"`
	Events    []string `json:"events,omitempty"`
	Confirmed int      `json:"confirmed_replays"`
}

// Report is what one worker process writes.
type Report struct {
	Scenario       string         `json:"scenario"`
	Bound          int            `json:"bound"`
	CompletedBound int            `json:"completed_bound"` // -1: not even bound 0
	Shard          string         `json:"shard"`
	Executions     int64          `json:"executions"`
	DupExecutions  int64          `json:"dup_executions"` // executions above the shard level, run by every shard
	Transitions    int64          `json:"transitions"`
	Evaluations    int64          `json:"evaluations"`
	Labels         map[string]int `json:"labels,omitempty"` // OUTCOME labels logged by litmus drivers // inputs enumerated inside executions (vrt.AddEvaluations)
	States         int            `json:"states"`
	Outcomes       int            `json:"distinct_outcomes"`
	OutcomeHashes  []uint64       `json:"outcome_hashes,omitempty"`
	MaxPoints      int            `json:"max_points"`
	MaxThreads     int            `json:"max_threads"`
	Complete       bool           `json:"complete"`
	Status         map[string]int `json:"status_counts"`
	Violations     []Violation    `json:"violations"`
	Unconfirmed    []string       `json:"unconfirmed,omitempty"`
	EngineError    string         `json:"engine_error,omitempty"`
	Sample         []string       `json:"sample,omitempty"`
	SampleTrace    []string       `json:"sample_trace,omitempty"`
	WallS          float64        `json:"wall_s"`
	ReplayChecked  int            `json:"replay_determinism_checked"`
	HorizonHits    int            `json:"horizon_hits"`
}

type explorer struct {
	sc       *Scenario
	bound    int
	shard    int
	nshards  int
	level    int // depth at which subtrees are dealt to shards
	counter  int64
	deadline time.Time
	maxExec  int64
	stop     bool

	rep        *Report
	states     map[uint64]struct{}
	outcomes   map[uint64]struct{}
	vio        map[string]*Violation
	vioOutcome map[uint64]struct{}
	claimDir   string
}

func eventHash(res *Result) uint64 {
	h := fnv.New64a()
	for _, e := range res.Events {
		fmt.Fprintf(h, "%s|%s|%v;", e.T, e.Kind, e.Args)
	}
	fmt.Fprintf(h, "%d|%d|%v|%v|%v|%d", res.Status, res.Clock, res.Horizon, res.Blocked, res.Leaked, res.EarlyFires)
	for _, p := range res.Panics {
		fmt.Fprintf(h, "|%s:%s", p.Thread, p.Msg)
	}
	return h.Sum64()
}

// safeCheck runs the oracle; a crash of the oracle itself is an engine error, never a violation.
func (e *explorer) safeCheck(res *Result) (msg string) {
	defer func() {
		if r := recover(); r != nil {
			e.rep.EngineError = fmt.Sprintf("oracle crashed: %v", r)
			e.stop = true
			msg = ""
		}
	}()
	return e.sc.Check(res)
}

func (e *explorer) check(x *Exec, res *Result, choices []int32, devs int, counted bool) {
	if x.diverged != "" {
		e.rep.EngineError = x.diverged
		e.stop = true
		return
	}
	if counted {
		e.rep.Executions++
		e.rep.Transitions += int64(x.steps)
		e.rep.Evaluations += x.evals
	} else {
		e.rep.DupExecutions++
	}
	if len(x.points) > e.rep.MaxPoints {
		e.rep.MaxPoints = len(x.points)
	}
	if x.nthreads > e.rep.MaxThreads {
		e.rep.MaxThreads = x.nthreads
	}
	e.rep.Status[res.Status.String()]++
	if res.Status == StSteps {
		// step horizon or timer-event horizon: this execution was cut short. It is never judged
		// (a correct but longer-running tree must not raise an alarm); the run is reported as not
		// exhaustive.
		e.rep.Complete = false
		e.rep.HorizonHits++
		return
	}
	if e.sc.Expect != nil {
		label := ""
		for _, ev := range res.Events {
			if ev.Kind == "OUTCOME" {
				label += ev.Str(0) + ";"
			}
		}
		if res.Status != StOK {
			label += res.Status.String()
		}
		if e.rep.Labels == nil {
			e.rep.Labels = map[string]int{}
		}
		e.rep.Labels[label]++
	}
	hk := eventHash(res)
	_, seen := e.outcomes[hk]
	e.outcomes[hk] = struct{}{}
	// every 64th execution is replayed to check determinism. A difference on an execution the
	// oracle rejects anyway (e.g. a change that added process-wide state) is reported as that
	// violation; on a passing execution it is an engine error.
	if counted && e.rep.Executions%64 == 1 {
		_, r2 := runOne(e.sc.Opts, choices, nil, e.sc.Run, nil, nil)
		if eventHash(r2) != hk {
			if e.safeCheck(res) == "" {
				e.rep.EngineError = fmt.Sprintf("nondeterminism: replay of %v produced a different event log", choices)
				e.stop = true
				return
			}
		} else {
			e.rep.ReplayChecked++
		}
	}
	if seen {
		// an identical Result (log, status, clock, blocked/alive threads, panics are all in the
		// hash) was already judged; oracles are functions of the Result
		if _, bad := e.vioOutcome[hk]; !bad {
			return
		}
	}
	msg := e.safeCheck(res)
	if e.stop {
		return
	}
	if msg == "" {
		return
	}
	e.vioOutcome[hk] = struct{}{}
	// an oracle may report several violations of one execution (one per line), e.g. a delivery
	// fault and the deadlock it leads to: each has its own signature and (possibly) its own owner
	for _, m := range strings.Split(msg, "\n") {
		if m != "" {
			e.record(m, choices, devs)
		}
	}
}

func sigOf(msg string) string {
	if k := strings.Index(msg, ":"); k >= 0 {
		return msg[:k]
	}
	return msg
}

func (e *explorer) record(msg string, choices []int32, devs int) {
	sig := sigOf(msg)
	if old, ok := e.vio[sig]; ok && old.Devs <= devs {
		return
	}
	// confirm: the same schedule must fail identically five times
	conf := 0
	for i := 0; i < 5; i++ {
		_, r2 := runOne(e.sc.Opts, choices, nil, e.sc.Run, nil, nil)
		// the same schedule must fail with the same signature (the text after the colon may carry
		// run-dependent detail)
		for _, m2 := range strings.Split(e.sc.Check(r2), "\n") {
			if m2 != "" && sigOf(m2) == sig {
				conf++
				break
			}
		}
	}
	if conf < 5 {
		e.rep.Unconfirmed = append(e.rep.Unconfirmed, fmt.Sprintf("%s (confirmed %d/5) choices=%v", msg, conf, choices))
		return
	}
	var trace []string
	_, r3 := runOne(e.sc.Opts, choices, nil, e.sc.Run, nil, &trace)
	v := &Violation{Scenario: e.sc.Name, Signature: sig, Message: msg, Devs: devs, Bound: e.bound,
		Choices: append([]int32(nil), choices...), Trace: trace, Confirmed: conf}
	for _, ev := range r3.Events {
		v.Events = append(v.Events, ev.String())
	}
	for _, b := range r3.Blocked {
		v.Events = append(v.Events, "BLOCKED "+b)
	}
	for _, b := range r3.Leaked {
		v.Events = append(v.Events, "ALIVE "+b)
	}
	for _, p := range r3.Panics {
		v.Events = append(v.Events, "PANIC in T"+p.Thread+": "+p.Msg)
	}
	e.vio[sig] = v
	if len(e.vio) >= 25 {
		e.stop = true
	}
}

// A node of the schedule tree: the execution that follows parent's choices up to point i, takes
// alternative alt there, and default choices afterwards.
type parentRec struct {
	choices []int32
	sigs    []uint32
}

type node struct {
	parent *parentRec
	i      int
	alt    int32
	devs   int
}

func (n node) prefix() ([]int32, []uint32) {
	if n.parent == nil {
		return nil, nil
	}
	np := make([]int32, n.i+1)
	copy(np, n.parent.choices[:n.i])
	np[n.i] = n.alt
	return np, n.parent.sigs[:n.i+1]
}

func (e *explorer) expired() bool {
	if !e.deadline.IsZero() && time.Now().After(e.deadline) || (e.maxExec > 0 && e.rep.Executions >= e.maxExec) {
		e.stop = true
		e.rep.Complete = false
		return true
	}
	return false
}

// runNode executes one node, judges it, and returns its children within the deviation bound.
func (e *explorer) runNode(n node, counted bool) []node {
	if e.stop || e.expired() {
		return nil
	}
	prefix, expect := n.prefix()
	x, res := runOne(e.sc.Opts, prefix, expect, e.sc.Run, e.states, nil)
	rec := &parentRec{choices: make([]int32, len(x.points)), sigs: make([]uint32, len(x.points))}
	for i := range x.points {
		rec.choices[i] = x.points[i].Chosen
		rec.sigs[i] = x.points[i].Sig
	}
	e.check(x, res, rec.choices[:trimDefault(rec.choices)], n.devs, counted)
	if e.rep.Sample == nil && counted {
		for _, ev := range res.Events {
			e.rep.Sample = append(e.rep.Sample, ev.String())
		}
		if e.rep.Sample == nil {
			e.rep.Sample = []string{}
		}
	}
	if os.Getenv("VRT_DEBUG_POINTS") != "" && n.parent == nil {
		for i, p := range x.points {
			if p.N > 1 {
				fmt.Fprintf(os.Stderr, "point %d N=%d costs=%v sig=%x\n", i, p.N, p.Costs, p.Sig)
			}
		}
	}
	var kids []node
	pts := x.points
	for i := len(prefix); i < len(pts); i++ {
		p := &pts[i]
		for alt := int32(1); alt < p.N; alt++ {
			c := n.devs + int(p.Costs[alt])
			if c > e.bound {
				continue
			}
			kids = append(kids, node{parent: rec, i: i, alt: alt, devs: c})
		}
	}
	return kids
}

// claim decides which shard explores frontier unit idx. With a claim directory (shared by the
// worker processes of one run) units are taken dynamically, first come first served, through
// exclusive file creation; without one they are dealt statically by a hash of the prefix.
func (e *explorer) claim(idx int, k node) bool {
	if e.claimDir != "" {
		f, err := os.OpenFile(fmt.Sprintf("%s/b%d-%d", e.claimDir, e.bound, idx), os.O_CREATE|os.O_EXCL|os.O_WRONLY, 0o644)
		if err != nil {
			return false
		}
		f.Close()
		return true
	}
	pf, _ := k.prefix()
	h := uint64(14695981039346656037)
	for _, c := range pf {
		h = (h ^ uint64(uint32(c))) * 1099511628211
	}
	h ^= h >> 29
	return int(h%uint64(e.nshards)) == e.shard
}

func (e *explorer) dfs(n node) {
	for _, k := range e.runNode(n, true) {
		if e.stop {
			return
		}
		e.dfs(k)
	}
}

// top: every shard runs the first levels of the tree identically (breadth first) until the
// next level would exceed the duplication budget; that level's subtrees are then dealt to the
// shards by a hash of their prefix and explored depth first.
func (e *explorer) top() {
	root := node{}
	if e.nshards <= 1 {
		e.dfs(root)
		return
	}
	const budget = 3000
	frontier := []node{root}
	ran := 0
	for !e.stop {
		var next []node
		for _, n := range frontier {
			next = append(next, e.runNode(n, e.shard == 0)...)
			ran++
			if e.stop {
				return
			}
		}
		if len(next) == 0 {
			return
		}
		if ran+len(next) > budget {
			// largest subtrees (fewest deviations spent) first
			sort.SliceStable(next, func(i, j int) bool { return next[i].devs < next[j].devs })
			// units are claimed in batches (about 64 batches per shard)
			batch := len(next) / (e.nshards * 64)
			if batch < 1 {
				batch = 1
			}
			mine := false
			for idx, k := range next {
				if idx%batch == 0 {
					mine = e.claim(idx/batch, k)
				}
				if !mine {
					continue
				}
				e.dfs(k)
				if e.stop {
					return
				}
			}
			return
		}
		frontier = next
	}
}

// trimDefault drops the trailing default (0) choices: a replay takes 0 beyond the prefix anyway.
func trimDefault(c []int32) int {
	n := len(c)
	for n > 0 && c[n-1] == 0 {
		n--
	}
	return n
}

func envInt(name string, def int) int {
	if v := os.Getenv(name); v != "" {
		if n, err := strconv.Atoi(v); err == nil {
			return n
		}
	}
	return def
}

// WorkerMain is the entry point of a worker process (called from the test binary's TestMain).
// Environment: VRT_SCENARIO, VRT_BOUND, VRT_SHARD=i/n, VRT_LEVEL, VRT_OUT, VRT_DEADLINE_S,
// VRT_MAXEXEC, VRT_REPLAY=<file> (re-run one recorded schedule and print its trace).
func WorkerMain() int {
	if os.Getenv("VRT_LIST") != "" {
		for _, n := range regOrder {
			sc := registry[n]
			b, _ := json.Marshal(map[string]any{"name": n, "props": sc.Props, "quick": sc.Quick, "thorough": sc.Thorough,
				"level": sc.Level, "desc": sc.Desc, "expect": sc.Expect, "delay": sc.Opts.Delay, "heavy": sc.Heavy})
			fmt.Println(string(b))
		}
		return 0
	}
	if f := os.Getenv("VRT_REPLAY"); f != "" {
		return replayMain(f)
	}
	name := os.Getenv("VRT_SCENARIO")
	sc := registry[name]
	if sc == nil {
		fmt.Fprintf(os.Stderr, "ENGINE-ERROR unknown scenario %q\n", name)
		return 2
	}
	bound := envInt("VRT_BOUND", 1)
	shard, nshards := 0, 1
	if s := os.Getenv("VRT_SHARD"); s != "" {
		fmt.Sscanf(s, "%d/%d", &shard, &nshards)
	}
	start := time.Now()
	rep := &Report{Scenario: name, Bound: bound, CompletedBound: -1, Shard: fmt.Sprintf("%d/%d", shard, nshards),
		Status: map[string]int{}, Complete: true, Violations: []Violation{}}
	states := map[uint64]struct{}{}
	outcomes := map[uint64]struct{}{}
	vio := map[string]*Violation{}
	var dl time.Time
	if s := envInt("VRT_DEADLINE_S", 0); s > 0 {
		dl = start.Add(time.Duration(s) * time.Second)
	}
	first := 0
	if os.Getenv("VRT_ONLY_FINAL") != "" {
		first = bound
	}
	for b := first; b <= bound; b++ {
		e := &explorer{sc: sc, bound: b, shard: shard, nshards: nshards, level: envInt("VRT_LEVEL", 1), deadline: dl,
			maxExec: int64(envInt("VRT_MAXEXEC", 0)), rep: rep, states: states, outcomes: outcomes, vio: vio,
			vioOutcome: map[uint64]struct{}{}, claimDir: os.Getenv("VRT_CLAIM_DIR")}
		// counters describe the last (deepest) pass; lower bounds are re-covered by it
		rep.Executions, rep.Transitions, rep.DupExecutions, rep.Evaluations = 0, 0, 0, 0
		rep.Status = map[string]int{}
		e.top()
		if rep.EngineError != "" || !rep.Complete {
			break
		}
		rep.CompletedBound = b
		if len(vio) > 0 {
			break // the first bound that shows a violation gives the shortest counterexample
		}
	}
	rep.States = len(states)
	rep.Outcomes = len(outcomes)
	if len(outcomes) <= 200000 {
		for k := range outcomes {
			rep.OutcomeHashes = append(rep.OutcomeHashes, k)
		}
	}
	keys := make([]string, 0, len(vio))
	for k := range vio {
		keys = append(keys, k)
	}
	sort.Strings(keys)
	for _, k := range keys {
		rep.Violations = append(rep.Violations, *vio[k])
	}
	if rep.SampleTrace == nil {
		var tr []string
		runOne(sc.Opts, nil, nil, sc.Run, nil, &tr)
		if len(tr) > 60 {
			tr = append(tr[:60], fmt.Sprintf("... (%d more steps)", len(tr)-60))
		}
		rep.SampleTrace = tr
	}
	rep.WallS = time.Since(start).Seconds()
	out, _ := json.Marshal(rep)
	if f := os.Getenv("VRT_OUT"); f != "" {
		if err := os.WriteFile(f, out, 0o644); err != nil {
			fmt.Fprintln(os.Stderr, "ENGINE-ERROR", err)
			return 2
		}
	} else {
		fmt.Println(string(out))
	}
	if rep.EngineError != "" {
		fmt.Fprintln(os.Stderr, "ENGINE-ERROR", rep.EngineError)
		return 2
	}
	return 0
}

// replayMain re-runs the schedule stored in a replay file and prints the annotated trace.
func replayMain(file string) int {
	data, err := os.ReadFile(file)
	if err != nil {
		fmt.Fprintln(os.Stderr, "ENGINE-ERROR", err)
		return 2
	}
	var v Violation
	if err := json.Unmarshal(data, &v); err != nil {
		fmt.Fprintln(os.Stderr, "ENGINE-ERROR", err)
		return 2
	}
	sc := registry[v.Scenario]
	if sc == nil {
		fmt.Fprintf(os.Stderr, "ENGINE-ERROR unknown scenario %q\n", v.Scenario)
		return 2
	}
	var trace []string
	_, res := runOne(sc.Opts, v.Choices, nil, sc.Run, nil, &trace)
	for _, l := range trace {
		fmt.Println(l)
	}
	fmt.Println("--- events")
	for _, ev := range res.Events {
		fmt.Println(ev.String())
	}
	for _, b := range res.Blocked {
		fmt.Println("BLOCKED", b)
	}
	for _, b := range res.Leaked {
		fmt.Println("ALIVE", b)
	}
	for _, p := range res.Panics {
		fmt.Println("PANIC in T"+p.Thread+":", p.Msg)
	}
	fmt.Println("--- status:", res.Status, "clock:", res.Clock)
	msg := sc.Check(res)
	if msg == "" {
		fmt.Println("oracle: ok (the recorded violation does not reproduce on this tree)")
		return 0
	}
	fmt.Println("oracle:", msg)
	return 1
}
