package vrt

import (
	"fmt"
	"iter"
	"reflect"
	"sort"
	"unsafe"
)

// Map iteration order. Go randomises it; here the base order is insertion order (tracked by
// MapSet / MapTouch, which the instrumenter puts on map assignments) and, when the scenario
// asks for it, the permutation actually used is an enumerated environment choice.

type mapOrder struct {
	ptr  unsafe.Pointer
	keys []any
}

//go:norace
func (x *Exec) mapReg(p unsafe.Pointer, create bool) *mapOrder {
	for _, mo := range x.mapList {
		if mo.ptr == p {
			return mo
		}
	}
	if !create {
		return nil
	}
	mo := &mapOrder{ptr: p}
	x.mapList = append(x.mapList, mo)
	return mo
}

//go:norace
func noteKey(t *thread, p unsafe.Pointer, k any, present bool) {
	mo := t.x.mapReg(p, true)
	if present {
		for _, e := range mo.keys {
			if e == k {
				return
			}
		}
	} else {
		for i, e := range mo.keys {
			if e == k {
				mo.keys = append(mo.keys[:i:i], mo.keys[i+1:]...)
				break
			}
		}
	}
	mo.keys = append(mo.keys, k)
}

// MapSet is `m[k] = v`.
func MapSet[M ~map[K]V, K comparable, V any](m M, k K, v V) {
	if t := cur(); t != nil && m != nil {
		_, present := m[k]
		noteKey(t, reflect.ValueOf(m).UnsafePointer(), k, present)
	}
	m[k] = v
}

// MapTouch registers k as (about to be) inserted; used in front of `m[k] op= v`, `m[k]++`.
func MapTouch[M ~map[K]V, K comparable, V any](m M, k K) {
	if t := cur(); t != nil && m != nil {
		_, present := m[k]
		noteKey(t, reflect.ValueOf(m).UnsafePointer(), k, present)
	}
}

// mapKeys returns the keys of m in canonical order, permuted by an environment choice when
// the scenario enumerates map orders.
func mapKeys[M ~map[K]V, K comparable, V any](m M) []K {
	n := len(m)
	if n == 0 {
		return nil
	}
	keys := make([]K, 0, n)
	t := cur()
	if t != nil {
		if mo := t.x.mapReg(reflect.ValueOf(m).UnsafePointer(), false); mo != nil {
			for _, e := range mo.keys {
				if k, ok := e.(K); ok {
					if _, present := m[k]; present {
						keys = append(keys, k)
					}
				}
			}
		}
	}
	if len(keys) < n {
		seen := make(map[K]struct{}, len(keys))
		for _, k := range keys {
			seen[k] = struct{}{}
		}
		var rest []K
		for k := range m {
			if _, ok := seen[k]; !ok {
				rest = append(rest, k)
			}
		}
		sort.Slice(rest, func(i, j int) bool { return fmt.Sprint(rest[i]) < fmt.Sprint(rest[j]) })
		keys = append(keys, rest...)
	}
	if t != nil && t.x.opts.MapPerm && len(keys) > 1 && len(keys) <= 5 {
		f := 1
		for i := 2; i <= len(keys); i++ {
			f *= i
		}
		c := Choose(f, 1)
		// decode c as a permutation (factorial number system); 0 = identity
		src := append([]K(nil), keys...)
		for i := 0; i < len(keys); i++ {
			f /= len(keys) - i
			j := c / f
			c %= f
			keys[i] = src[j]
			src = append(src[:j], src[j+1:]...)
		}
	}
	return keys
}

// MapRange is `for k, v := range m`.
func MapRange[M ~map[K]V, K comparable, V any](m M) iter.Seq2[K, V] {
	return func(yield func(K, V) bool) {
		for _, k := range mapKeys(m) {
			v, ok := m[k]
			if !ok {
				continue
			}
			if !yield(k, v) {
				return
			}
		}
	}
}
