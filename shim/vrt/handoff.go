//go:build !race

package vrt

// Hand-off between the scheduler goroutine and managed threads: ordinary channels.

type handoff struct {
	wake chan struct{}
}

func (h *handoff) init() { h.wake = make(chan struct{}, 1) }

func (h *handoff) signalParked(x *Exec) { x.parkedCh <- struct{}{} }

func (h *handoff) awaitRun() { <-h.wake }

func (h *handoff) release() { h.wake <- struct{}{} }

type schedHand struct {
	parkedCh chan struct{}
}

func (s *schedHand) init() { s.parkedCh = make(chan struct{}, maxThreads) }

// awaitParked waits until n released threads have parked again (or finished).
func (x *Exec) awaitParked(n int, _ ...*thread) {
	for i := 0; i < n; i++ {
		<-x.parkedCh
	}
}

const raceBuild = false

// RaceBuild reports whether this is the race tier.
const RaceBuild = raceBuild
