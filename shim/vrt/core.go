// Package vrt is the controlled runtime: a cooperative scheduler that owns every
// synchronisation operation of the instrumented code, plus the model of Go's primitives
// (see DESIGN.md sections 4 and 5). Exactly one managed goroutine ("thread") runs at a time
// (two during an unbuffered rendezvous); the scheduler goroutine decides who runs next.
//
// Discipline (needed by the race tier, where the hand-off is invisible to the race detector):
// threads write only their own request slot and inline object headers, inside //go:norace
// functions, and never touch the scheduler's maps or slices; the scheduler reads slots and
// mutates model state inside //go:norace functions.
package vrt

import (
	"fmt"
	"reflect"
	"runtime"
	"strings"
	"unsafe"
)

type OpKind uint8

const (
	OpStart OpKind = iota
	OpResume
	OpMutexLock
	OpMutexUnlock
	OpMutexTryLock
	OpRWLock // acquire the writer slot
	OpRWAnnounce
	OpRWDrain
	OpRWUnlock
	OpRWRLock
	OpRWRUnlock
	OpRWTryRLock
	OpRWTryLock
	OpCondReg
	OpCondPark
	OpCondSignal
	OpCondBroadcast
	OpWGAdd
	OpWGWait
	OpAtomicLoad
	OpAtomicRMW
	OpChanSend
	OpChanRecv
	OpChanClose
	OpSelect
	OpSleep
	OpTimerStop
	OpTimerReset
	OpTimerNew
	OpChoose
	OpYield
	OpPoint
)

var opNames = [...]string{"start", "resume", "mutex.Lock", "mutex.Unlock", "mutex.TryLock",
	"rw.Lock(w)", "rw.Lock(announce)", "rw.Lock(drain)", "rw.Unlock", "rw.RLock", "rw.RUnlock", "rw.TryRLock", "rw.TryLock",
	"cond.Wait(register)", "cond.Wait(park)", "cond.Signal", "cond.Broadcast", "wg.Add", "wg.Wait",
	"atomic.load", "atomic.rmw", "chan.send", "chan.recv", "chan.close", "select", "sleep",
	"timer.Stop", "timer.Reset", "timer.New", "choose", "yield", "point"}

func (k OpKind) String() string { return opNames[k] }

// Hdr is embedded in every inline model object; it is reset lazily when the object is first
// touched in a new execution (objects normally live for one execution only).
type Hdr struct {
	epoch uint32
	id    int32
}

type MutexState struct {
	Hdr
	locked bool
}

type RWState struct {
	Hdr
	w         bool // writer slot taken (rw.w in the std implementation)
	announced bool // a writer has announced itself: RLock blocks, TryRLock fails
	readers   int
}

type CondState struct {
	Hdr
	waiters []*thread // registered and not yet notified, in ticket order (scheduler only)
}

type WGState struct {
	Hdr
	n int
}

type AtomicState struct {
	Hdr
}

// Case is one arm of a select (or the single arm of a plain channel operation).
type Case struct {
	Ch   reflect.Value // the channel (zero Value or nil channel: never ready)
	Send bool
}

type thread struct {
	x       *Exec
	id      int
	name    string // spawn path, e.g. "0.1.0"
	harness bool
	nkids   int
	spawnPC uintptr

	// request slot (written by the thread before parking, read by the scheduler)
	op       OpKind
	obj      unsafe.Pointer // model object (MutexState, RWState, ...), or nil
	objID    int32
	cases    []Case
	hasDef   bool
	n        int   // Choose: number of options; WGAdd: delta
	ccost    uint8 // Choose: cost of a non-zero answer
	deadline int64 // Sleep
	tm       *TimerState

	// reply slot (written by the scheduler before release)
	sel     int  // chosen arm / choice
	ok      bool // TryLock result etc.
	passive bool // passive side of a rendezvous: perform the real op, then park with OpResume
	abort   bool

	condNotified bool
	yielded      bool
	finished     bool
	panicked     bool
	panicVal     any
	panicStack   string
	steps        int
	hist         uint64

	site string  // trace mode: source position of the pending operation
	log  []Event // per-thread event log (thread-owned until the join at the end of the execution)

	hand handoff
}

// curX is the execution in progress in this process (nil: pass-through mode).
var curX *Exec

//go:norace
func cur() *thread {
	x := curX
	if x == nil {
		return nil
	}
	return x.cur
}

// Managed reports whether the caller runs under the scheduler.
//
//go:norace
func Managed() bool { return cur() != nil }

//go:norace
func (t *thread) park() {
	if t.abort {
		runtime.Goexit()
	}
	t.steps++
	if t.x.trace != nil || t.x.opts.Sites {
		t.site = callerSite()
	}
	t.hand.signalParked(t.x)
	t.hand.awaitRun()
	if t.abort {
		runtime.Goexit()
	}
}

//go:norace
func (t *thread) touch(h *Hdr) int32 {
	if h.epoch != t.x.epoch {
		h.epoch = t.x.epoch
		t.x.nextObj++
		h.id = t.x.nextObj
		return -h.id // negative: freshly (re)initialised
	}
	return h.id
}

// ---- thread-side operations on inline objects ------------------------------------------------

//go:norace
func simple(op OpKind, h *Hdr, obj unsafe.Pointer) *thread {
	t := cur()
	if t == nil {
		return nil
	}
	t.op, t.obj = op, obj
	if h != nil {
		id := t.touch(h)
		if id < 0 {
			id = -id
			resetObj(op, obj)
		}
		t.objID = id
	} else {
		t.objID = 0
	}
	t.park()
	return t
}

//go:norace
func resetObj(op OpKind, obj unsafe.Pointer) {
	switch op {
	case OpMutexLock, OpMutexUnlock, OpMutexTryLock:
		m := (*MutexState)(obj)
		m.locked = false
	case OpRWLock, OpRWAnnounce, OpRWDrain, OpRWUnlock, OpRWRLock, OpRWRUnlock, OpRWTryRLock, OpRWTryLock:
		m := (*RWState)(obj)
		m.w, m.announced, m.readers = false, false, 0
	case OpCondReg, OpCondPark, OpCondSignal, OpCondBroadcast:
		(*CondState)(obj).waiters = nil
	case OpWGAdd, OpWGWait:
		(*WGState)(obj).n = 0
	}
}

// Fatal mirrors the runtime's unrecoverable "fatal error" for misuse of a primitive: it is
// recorded and the thread is terminated.
type fatalMisuse struct{ msg string }

func (f fatalMisuse) Error() string { return "fatal error: " + f.msg }

//go:norace
func MutexLock(m *MutexState) bool { return simple(OpMutexLock, &m.Hdr, unsafe.Pointer(m)) != nil }

//go:norace
func MutexUnlock(m *MutexState) bool {
	t := simple(OpMutexUnlock, &m.Hdr, unsafe.Pointer(m))
	if t == nil {
		return false
	}
	if !t.ok {
		panic(fatalMisuse{"sync: unlock of unlocked mutex"})
	}
	if t.x.opts.PostUnlock {
		// code that follows an unlock touches shared data without the lock if it is wrong: give the
		// scheduler a point right after the release, before any such plain access
		simple(OpPoint, nil, nil)
	}
	return true
}

//go:norace
func MutexTryLock(m *MutexState) (managed, ok bool) {
	t := simple(OpMutexTryLock, &m.Hdr, unsafe.Pointer(m))
	if t == nil {
		return false, false
	}
	return true, t.ok
}

//go:norace
func RWLock(m *RWState) bool {
	if simple(OpRWLock, &m.Hdr, unsafe.Pointer(m)) == nil {
		return false
	}
	simple(OpRWAnnounce, &m.Hdr, unsafe.Pointer(m))
	simple(OpRWDrain, &m.Hdr, unsafe.Pointer(m))
	return true
}

//go:norace
func RWUnlock(m *RWState) bool {
	t := simple(OpRWUnlock, &m.Hdr, unsafe.Pointer(m))
	if t == nil {
		return false
	}
	if !t.ok {
		panic(fatalMisuse{"sync: Unlock of unlocked RWMutex"})
	}
	if t.x.opts.PostUnlock {
		// code that follows an unlock touches shared data without the lock if it is wrong: give the
		// scheduler a point right after the release, before any such plain access
		simple(OpPoint, nil, nil)
	}
	return true
}

//go:norace
func RWRLock(m *RWState) bool { return simple(OpRWRLock, &m.Hdr, unsafe.Pointer(m)) != nil }

//go:norace
func RWRUnlock(m *RWState) bool {
	t := simple(OpRWRUnlock, &m.Hdr, unsafe.Pointer(m))
	if t == nil {
		return false
	}
	if !t.ok {
		panic(fatalMisuse{"sync: RUnlock of unlocked RWMutex"})
	}
	if t.x.opts.PostUnlock {
		// code that follows an unlock touches shared data without the lock if it is wrong: give the
		// scheduler a point right after the release, before any such plain access
		simple(OpPoint, nil, nil)
	}
	return true
}

//go:norace
func RWTryRLock(m *RWState) (managed, ok bool) {
	t := simple(OpRWTryRLock, &m.Hdr, unsafe.Pointer(m))
	if t == nil {
		return false, false
	}
	return true, t.ok
}

//go:norace
func RWTryLock(m *RWState) (managed, ok bool) {
	t := simple(OpRWTryLock, &m.Hdr, unsafe.Pointer(m))
	if t == nil {
		return false, false
	}
	return true, t.ok
}

// CondRegister is the first half of Cond.Wait (runtime_notifyListAdd); CondPark the second.
//
//go:norace
func CondRegister(c *CondState) bool { return simple(OpCondReg, &c.Hdr, unsafe.Pointer(c)) != nil }

//go:norace
func CondPark(c *CondState) { simple(OpCondPark, &c.Hdr, unsafe.Pointer(c)) }

//go:norace
func CondSignal(c *CondState) bool { return simple(OpCondSignal, &c.Hdr, unsafe.Pointer(c)) != nil }

//go:norace
func CondBroadcast(c *CondState) bool {
	return simple(OpCondBroadcast, &c.Hdr, unsafe.Pointer(c)) != nil
}

//go:norace
func WGAdd(w *WGState, delta int) bool {
	t := cur()
	if t == nil {
		return false
	}
	t.n = delta
	simple(OpWGAdd, &w.Hdr, unsafe.Pointer(w))
	if !t.ok {
		panic("sync: negative WaitGroup counter")
	}
	return true
}

//go:norace
func WGWait(w *WGState) bool { return simple(OpWGWait, &w.Hdr, unsafe.Pointer(w)) != nil }

// AtomicPoint is the scheduling point in front of every atomic operation.
//
//go:norace
func AtomicPoint(a *AtomicState, write bool) {
	op := OpAtomicLoad
	if write {
		op = OpAtomicRMW
	}
	simple(op, &a.Hdr, unsafe.Pointer(a))
}

// Yield is runtime.Gosched under the scheduler: the thread is not scheduled again until some
// other thread has taken a step.
//
//go:norace
func Yield() {
	t := cur()
	if t == nil {
		runtime.Gosched()
		return
	}
	simple(OpYield, nil, nil)
}

// Point is a plain scheduling point with no model effect (used by harness work functions).
//
//go:norace
func Point() { simple(OpPoint, nil, nil) }

// Choose asks the environment for a value in [0,n); a non-zero answer costs `cost` deviations.
//
//go:norace
func Choose(n int, cost int) int {
	t := cur()
	if t == nil || n <= 1 {
		return 0
	}
	t.n, t.ccost = n, uint8(cost)
	simple(OpChoose, nil, nil)
	return t.sel
}

// ---- spawn / exit -----------------------------------------------------------------------------

// Go starts fn as a managed thread (library code). GoH is the same for harness code.
func Go(fn func())  { spawn(fn, false) }
func GoH(fn func()) { spawn(fn, true) }

//go:norace
func spawn(fn func(), harness bool) {
	p := cur()
	if p == nil {
		go fn()
		return
	}
	if p.abort {
		return
	}
	x := p.x
	var pcs [1]uintptr
	runtime.Callers(3, pcs[:])
	c := &thread{x: x, harness: harness, spawnPC: pcs[0], op: OpStart}
	c.name = fmt.Sprintf("%s.%d", p.name, p.nkids)
	p.nkids++
	c.hand.init()
	x.addThread(c)
	go c.main(fn)
}

//go:norace
func (x *Exec) addThread(c *thread) {
	// Called by the running thread (it holds the token) or by the scheduler. The slice is
	// pre-allocated (maxThreads), so no growth happens and the scheduler only reads below nthreads.
	if x.nthreads >= len(x.threads) {
		panic(engineError("too many threads in one execution"))
	}
	c.id = x.nthreads
	x.threads[x.nthreads] = c
	x.nthreads++
}

type engineError string

func (e engineError) Error() string { return "ENGINE-ERROR " + string(e) }

func (t *thread) main(fn func()) {
	t.hand.awaitRun()
	defer t.exit()
	if t.abort {
		return
	}
	fn()
}

//go:norace
func (t *thread) exit() {
	if r := recover(); r != nil && !t.abort {
		t.panicked = true
		t.panicVal = r
		buf := make([]byte, 8192)
		t.panicStack = string(buf[:runtime.Stack(buf, false)])
	}
	t.finished = true
	t.hand.signalParked(t.x)
	if raceBuild {
		t.x.joinCh <- struct{}{} // a real edge thread -> scheduler at the end of the execution
	}
}

// MutexLocked reports the model state of a shim sync.Mutex (p is a *sync.Mutex of the
// instrumented build, whose first field is the MutexState). For oracles only.
//
//go:norace
func MutexLocked(p any) bool {
	v := reflect.ValueOf(p)
	if v.Kind() != reflect.Ptr || v.IsNil() {
		return false
	}
	m := (*MutexState)(v.UnsafePointer())
	x := curX
	if x == nil || m.epoch != x.epoch {
		return false
	}
	return m.locked
}

// ThreadState is what an oracle may see of one managed thread (Options.Sites must be set for
// Site): the operation it is parked on, where, and how many operations it has performed so far.
type ThreadState struct {
	Name     string
	Harness  bool
	Op       string
	Site     string
	Steps    int
	Finished bool
}

// Threads describes every managed thread other than the caller, in creation order. Used by
// lasso (fair-cycle) oracles, which compare two snapshots of one execution.
//
//go:norace
func Threads() []ThreadState {
	t := cur()
	if t == nil {
		return nil
	}
	x := t.x
	out := make([]ThreadState, 0, x.nthreads)
	for _, o := range x.threads[:x.nthreads] {
		if o == t {
			continue
		}
		out = append(out, ThreadState{Name: o.name, Harness: o.harness, Op: o.op.String(), Site: o.site, Steps: int(o.steps), Finished: o.finished})
	}
	return out
}

// callerSite returns the innermost frame outside the shim packages (trace mode only).
func callerSite() string {
	var pcs [24]uintptr
	n := runtime.Callers(3, pcs[:])
	fr := runtime.CallersFrames(pcs[:n])
	for {
		f, more := fr.Next()
		if f.Function != "" && !strings.Contains(f.Function, "/internal/v/vrt.") && !strings.Contains(f.Function, "/internal/v/sync.") &&
			!strings.Contains(f.Function, "/internal/v/atomic.") && !strings.Contains(f.Function, "/internal/v/time.") &&
			!strings.Contains(f.Function, "/internal/v/rand.") {
			file := f.File
			if k := strings.LastIndexByte(file, '/'); k >= 0 {
				file = file[k+1:]
			}
			fn := f.Function
			if k := strings.LastIndexByte(fn, '/'); k >= 0 {
				fn = fn[k+1:]
			}
			return fmt.Sprintf("%s:%d %s", file, f.Line, fn)
		}
		if !more {
			return ""
		}
	}
}
