//go:build race

package vrt

import "runtime"

// Hand-off for the race tier: spins on plain words inside //go:norace functions, so that the
// scheduler contributes no happens-before edge between threads (GOMAXPROCS=1).

type handoff struct {
	run    uint32
	parked uint32
}

func (h *handoff) init() {}

//go:norace
func (h *handoff) signalParked(x *Exec) { h.parked = 1 }

//go:norace
func (h *handoff) awaitRun() {
	for h.run == 0 {
		runtime.Gosched()
	}
	h.run = 0
}

//go:norace
func (h *handoff) release() { h.parked = 0; h.run = 1 }

type schedHand struct{}

func (s *schedHand) init() {}

//go:norace
func (x *Exec) awaitParked(n int, ts ...*thread) {
	for _, t := range ts {
		for t.hand.parked == 0 {
			runtime.Gosched()
		}
	}
}

const raceBuild = true

// RaceBuild reports whether this is the race tier.
const RaceBuild = raceBuild
