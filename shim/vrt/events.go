package vrt

import (
	"fmt"
	"sort"
	"strings"
)

// Event is one entry of the harness event log.
type Event struct {
	Seq  int64
	T    string // thread name
	Kind string
	Args []any
}

func (e Event) String() string {
	var b strings.Builder
	fmt.Fprintf(&b, "%d T%s %s", e.Seq, e.T, e.Kind)
	for _, a := range e.Args {
		fmt.Fprintf(&b, " %v", a)
	}
	return b.String()
}

// Int returns argument i as an int (-1<<62 if absent or of another type).
func (e Event) Int(i int) int {
	if i < len(e.Args) {
		if v, ok := e.Args[i].(int); ok {
			return v
		}
	}
	return -1 << 62
}

func (e Event) Str(i int) string {
	if i < len(e.Args) {
		if v, ok := e.Args[i].(string); ok {
			return v
		}
		return fmt.Sprint(e.Args[i])
	}
	return ""
}

// Log appends an event to the calling thread's log, stamped with the global step counter.
//
//go:norace
func Log(kind string, args ...any) int64 {
	t := cur()
	if t == nil {
		return 0
	}
	x := t.x
	x.seq++
	t.log = append(t.log, Event{Seq: x.seq, T: t.name, Kind: kind, Args: args})
	return x.seq
}

// Stamp returns a fresh global stamp without logging.
//
//go:norace
func Stamp() int64 {
	t := cur()
	if t == nil {
		return 0
	}
	t.x.seq++
	return t.x.seq
}

// ThreadName of the caller ("" outside the scheduler).
//
//go:norace
func ThreadName() string {
	if t := cur(); t != nil {
		return t.name
	}
	return ""
}

func sortEvents(ev []Event) {
	sort.Slice(ev, func(i, j int) bool { return ev[i].Seq < ev[j].Seq })
}

// AddEvaluations counts inputs enumerated inside one execution (pure-function sweeps).
//
//go:norace
func AddEvaluations(n int) {
	if x := curX; x != nil {
		x.evals += int64(n)
	}
}
