package vrt

import (
	"sync/atomic"
	"time"
)

// TimerState is the model of one time.Timer / time.Ticker / time.AfterFunc.
type TimerState struct {
	Hdr
	C      chan time.Time // nil for AfterFunc timers
	F      func()         // AfterFunc body
	when   int64
	period int64
	active bool
	nfired int
	word   atomic.Uint32 // start -> fire happens-before edge for the race tier
	real   *time.Timer   // pass-through mode only
}

// Now is the virtual clock (pass-through mode: the real clock).
//
//go:norace
func Now() time.Time {
	x := curX
	if x == nil || x.cur == nil {
		return time.Now()
	}
	// reading the clock is an observation that may be preceded by any number of timer events
	simple(OpPoint, nil, nil)
	return time.Unix(0, epochBase+x.clock)
}

// Elapsed returns the virtual time since the start of the execution.
//
//go:norace
func Elapsed() time.Duration {
	if x := curX; x != nil {
		return time.Duration(x.clock)
	}
	return 0
}

// Sleep blocks the thread until the virtual clock has advanced by d.
//
//go:norace
func Sleep(d time.Duration) {
	t := cur()
	if t == nil {
		time.Sleep(d)
		return
	}
	if d <= 0 {
		return
	}
	t.deadline = t.x.clock + int64(d)
	simple(OpSleep, nil, nil)
}

// NewTimer registers a timer with the scheduler. period > 0 makes it a ticker; f != nil an
// AfterFunc timer (C is then nil).
//
//go:norace
func NewTimer(d, period time.Duration, f func()) *TimerState {
	tm := &TimerState{F: f, period: int64(period)}
	if f == nil {
		tm.C = make(chan time.Time, 1)
	}
	t := cur()
	if t == nil {
		// pass-through
		if f != nil {
			tm.real = time.AfterFunc(d, f)
		} else {
			c := tm.C
			tm.real = time.AfterFunc(d, func() {
				select {
				case c <- time.Now():
				default:
				}
			})
		}
		return tm
	}
	tm.word.Store(1)
	t.tm = tm
	t.deadline = int64(d)
	simple(OpTimerNew, &tm.Hdr, nil)
	return tm
}

//go:norace
func (tm *TimerState) Stop() bool {
	t := cur()
	if t == nil {
		if tm.real != nil {
			return tm.real.Stop()
		}
		return false
	}
	t.tm = tm
	simple(OpTimerStop, &tm.Hdr, nil)
	return t.ok
}

//go:norace
func (tm *TimerState) Reset(d time.Duration) bool {
	t := cur()
	if t == nil {
		if tm.real != nil {
			return tm.real.Reset(d)
		}
		return false
	}
	tm.word.Store(1)
	t.tm = tm
	t.deadline = int64(d)
	simple(OpTimerReset, &tm.Hdr, nil)
	return t.ok
}

// ---- scheduler side ---------------------------------------------------------------------------

//go:norace
func (x *Exec) timerNew(tm *TimerState, d int64) {
	tm.when = x.clock + d
	tm.active = true
	x.timers = append(x.timers, tm)
	x.ntimers = len(x.timers)
}

//go:norace
func (x *Exec) timerStop(tm *TimerState) bool {
	was := tm.active
	tm.active = false
	if tm.C != nil {
		// Go 1.23 semantics: no stale value is observable after Stop/Reset
		select {
		case <-tm.C:
			was = true
		default:
		}
	}
	return was
}

// fireTimer advances the clock to the earliest deadline and fires one timer due at that time
// (lowest creation index); sleepers become enabled through the clock alone.
//
//go:norace
func (x *Exec) fireTimer() {
	d, ok := x.nextDeadline()
	if !ok {
		return
	}
	x.timerFires++
	if d > x.clock {
		x.clock = d
	}
	for i := 0; i < x.ntimers; i++ {
		tm := x.timers[i]
		if !tm.active || tm.when > x.clock {
			continue
		}
		tm.nfired++
		if tm.period > 0 {
			tm.when += tm.period
		} else {
			tm.active = false
		}
		tm.word.Load()
		if x.trace != nil {
			*x.trace = append(*x.trace, "#"+itoa(x.steps)+" TIMER fires at +"+time.Duration(x.clock).String())
		}
		if tm.F != nil {
			c := &thread{x: x, harness: false, op: OpStart}
			c.name = "t" + itoa(i) + "." + itoa(tm.nfired)
			c.hand.init()
			x.addThread(c)
			go c.main(tm.F)
		} else {
			select {
			case tm.C <- time.Unix(0, epochBase+x.clock):
			default:
			}
		}
		return
	}
	if x.trace != nil {
		*x.trace = append(*x.trace, "#"+itoa(x.steps)+" CLOCK advances to +"+time.Duration(x.clock).String())
	}
}

func itoa(i int) string {
	if i == 0 {
		return "0"
	}
	neg := i < 0
	if neg {
		i = -i
	}
	var b [20]byte
	p := len(b)
	for i > 0 {
		p--
		b[p] = byte('0' + i%10)
		i /= 10
	}
	if neg {
		p--
		b[p] = '-'
	}
	return string(b[p:])
}

// ResetPeriod is Ticker.Reset.
//
//go:norace
func (tm *TimerState) ResetPeriod(d time.Duration) {
	tm.period = int64(d)
	tm.Reset(d)
}

// RandInt63n is the environment answer to rand.Int63n(n): 0 by default; when the scenario
// enumerates random answers, one of {0, 1, n/2, n-1} (every value when n <= 8). The request
// is logged ("rand", n, answer) for oracles.
func RandInt63n(n int64) int64 {
	t := cur()
	if t == nil {
		return 0
	}
	var v int64
	if t.x.opts.RandAll && n > 1 {
		if n <= 8 {
			v = int64(Choose(int(n), 1))
		} else {
			alpha := [...]int64{0, 1, n / 2, n - 1}
			v = alpha[Choose(len(alpha), 1)]
		}
	}
	Log("rand", n, v)
	return v
}
