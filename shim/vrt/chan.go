package vrt

import (
	"iter"
	"reflect"
	"sync"
	"unsafe"
)

// Channels closed while no execution is active (package initialisers such as context's
// closedchan) are remembered for the life of the process.
var (
	preclosedMu sync.Mutex
	preclosed   = map[unsafe.Pointer]struct{}{}
	npreclosed  int
)

//go:norace
func preclosedHas(p unsafe.Pointer) bool {
	if npreclosed == 0 {
		return false
	}
	_, ok := preclosed[p]
	return ok
}

//go:norace
func (t *thread) chanOp(op OpKind, ch reflect.Value, send bool) {
	if cap(t.cases) == 0 {
		t.cases = make([]Case, 1, 4)
	}
	t.cases = t.cases[:1]
	t.cases[0] = Case{Ch: ch, Send: send}
	t.hasDef = false
	t.op, t.obj, t.objID = op, nil, 0
	t.park()
}

//go:norace
func (t *thread) post() {
	if t.passive {
		t.passive = false
		t.op, t.obj, t.objID = OpResume, nil, 0
		t.park()
	}
}

// Send is `ch <- v`.
func Send[T any](ch chan<- T, v T) {
	t := cur()
	if t == nil {
		ch <- v
		return
	}
	t.chanOp(OpChanSend, reflect.ValueOf(ch), true)
	ch <- v
	t.post()
}

// Recv is `<-ch`.
func Recv[T any](ch <-chan T) T {
	t := cur()
	if t == nil {
		return <-ch
	}
	t.chanOp(OpChanRecv, reflect.ValueOf(ch), false)
	v := <-ch
	t.post()
	return v
}

// Recv2 is `v, ok := <-ch`.
func Recv2[T any](ch <-chan T) (T, bool) {
	t := cur()
	if t == nil {
		v, ok := <-ch
		return v, ok
	}
	t.chanOp(OpChanRecv, reflect.ValueOf(ch), false)
	v, ok := <-ch
	t.post()
	return v, ok
}

// Close is `close(ch)`.
func Close[T any](ch chan<- T) {
	t := cur()
	if t == nil {
		if ch != nil {
			preclosedMu.Lock()
			preclosed[reflect.ValueOf(ch).UnsafePointer()] = struct{}{}
			npreclosed++
			preclosedMu.Unlock()
		}
		close(ch)
		return
	}
	t.chanOp(OpChanClose, reflect.ValueOf(ch), true)
	close(ch)
}

// RangeChan is `for v := range ch`.
func RangeChan[T any](ch <-chan T) iter.Seq[T] {
	return func(yield func(T) bool) {
		for {
			v, ok := Recv2(ch)
			if !ok || !yield(v) {
				return
			}
		}
	}
}

// RecvCase / SendCase build select arms; SendVal types the value of a send arm.
func RecvCase[T any](ch <-chan T) Case { return Case{Ch: reflect.ValueOf(ch)} }
func SendCase[T any](ch chan<- T) Case { return Case{Ch: reflect.ValueOf(ch), Send: true} }

// SendVal(ch)(v) types the value of a send arm as the channel's element type.
func SendVal[T any](ch chan<- T) func(T) T { return func(v T) T { return v } }

// SendF(ch)(v) is `ch <- v` (the element type is inferred from the channel alone, so that v is
// converted by ordinary assignability, as in the send statement).
func SendF[T any](ch chan<- T) func(T) { return func(v T) { Send(ch, v) } }

// Sel is the outcome of the scheduling decision of one select statement.
type Sel struct {
	t *thread
	I int // chosen arm in source order (default excluded), -1 for default
}

// Select decides which arm of a select fires; the rewritten statement then performs the real
// operation of that arm and calls Post.
//
//go:norace
func Select(hasDefault bool, cases ...Case) Sel {
	t := cur()
	if t == nil {
		return Sel{nil, passThroughSelect(hasDefault, cases)}
	}
	t.cases = append(t.cases[:0], cases...)
	t.hasDef = hasDefault
	t.op, t.obj, t.objID = OpSelect, nil, 0
	t.park()
	return Sel{t, t.sel}
}

//go:norace
func (s Sel) Post() {
	if s.t != nil {
		s.t.post()
	}
}

// passThroughSelect serves goroutines outside the scheduler (none in normal operation): it polls.
func passThroughSelect(hasDefault bool, cases []Case) int {
	panic(engineError("select outside the scheduler"))
}

// ---- reflect-based channel operations ---------------------------------------------------------

// ReflectSelect is reflect.Select under the scheduler: which ready case fires is an
// enumerated (free) choice.
func ReflectSelect(cases []reflect.SelectCase) (int, reflect.Value, bool) {
	t := cur()
	if t == nil {
		return reflect.Select(cases)
	}
	t.cases = t.cases[:0]
	hasDef := false
	idx := make([]int, 0, len(cases))
	for i, c := range cases {
		switch c.Dir {
		case reflect.SelectDefault:
			hasDef = true
		case reflect.SelectSend:
			t.cases = append(t.cases, Case{Ch: c.Chan, Send: true})
			idx = append(idx, i)
		case reflect.SelectRecv:
			t.cases = append(t.cases, Case{Ch: c.Chan})
			idx = append(idx, i)
		}
	}
	t.hasDef = hasDef
	t.op, t.obj, t.objID = OpSelect, nil, 0
	t.park()
	if t.sel < 0 {
		for i, c := range cases {
			if c.Dir == reflect.SelectDefault {
				return i, reflect.Value{}, false
			}
		}
	}
	i := idx[t.sel]
	c := cases[i]
	if c.Dir == reflect.SelectSend {
		c.Chan.Send(c.Send)
		t.post()
		return i, reflect.Value{}, false
	}
	v, ok := c.Chan.Recv()
	t.post()
	return i, v, ok
}

func reflectNB(t *thread, ch reflect.Value, send bool) bool {
	t.cases = append(t.cases[:0], Case{Ch: ch, Send: send})
	t.hasDef = true
	t.op, t.obj, t.objID = OpSelect, nil, 0
	t.park()
	return t.sel >= 0
}

// ReflectTryRecv is reflect.Value.TryRecv.
func ReflectTryRecv(ch reflect.Value) (reflect.Value, bool) {
	t := cur()
	if t == nil {
		return ch.TryRecv()
	}
	if !reflectNB(t, ch, false) {
		return reflect.Value{}, false
	}
	v, ok := ch.Recv()
	t.post()
	if !ok {
		return reflect.Zero(ch.Type().Elem()), false
	}
	return v, ok
}

// ReflectTrySend is reflect.Value.TrySend.
func ReflectTrySend(ch reflect.Value, v reflect.Value) bool {
	t := cur()
	if t == nil {
		return ch.TrySend(v)
	}
	if !reflectNB(t, ch, true) {
		return false
	}
	ch.Send(v)
	t.post()
	return true
}

// ReflectRecv / ReflectSend / ReflectClose are the blocking reflect operations.
func ReflectRecv(ch reflect.Value) (reflect.Value, bool) {
	t := cur()
	if t == nil {
		return ch.Recv()
	}
	t.chanOp(OpChanRecv, ch, false)
	v, ok := ch.Recv()
	t.post()
	return v, ok
}

func ReflectSend(ch reflect.Value, v reflect.Value) {
	t := cur()
	if t == nil {
		ch.Send(v)
		return
	}
	t.chanOp(OpChanSend, ch, true)
	ch.Send(v)
	t.post()
}

func ReflectClose(ch reflect.Value) {
	t := cur()
	if t == nil {
		ch.Close()
		return
	}
	t.chanOp(OpChanClose, ch, true)
	ch.Close()
}

// IsClosed reports the model's view of whether ch has been closed (oracle helper; always false
// in the race tier, where only the detector's verdict matters).
//
//go:norace
func IsClosed[T any](ch <-chan T) bool {
	x := curX
	if x == nil || raceBuild || ch == nil {
		return false
	}
	_, ok := x.closed[reflect.ValueOf(ch).UnsafePointer()]
	return ok
}
