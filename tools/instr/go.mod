module instr

go 1.23
