// instr: source-to-source instrumenter (DESIGN.md section 3).
//
//	instr -repo /repo -verif /verif -out <scratch dir>
//
// Writes into <scratch dir> a module with the same module path as the repository containing:
// the library's non-test files with every synchronisation construct routed through the shim
// runtime, the shim itself (internal/v/...), the toolchain's context.go put through the same
// rewriting (internal/v/context), and the harness files of /verif/harness.
// Nothing under -repo is modified. Any construct it cannot handle is a hard error (exit 2).
package main

import (
	"bytes"
	"flag"
	"fmt"
	"go/ast"
	"go/build"
	"go/importer"
	"go/parser"
	"go/printer"
	"go/token"
	"go/types"
	"os"
	"path/filepath"
	"reflect"
	"runtime"
	"sort"
	"strings"
)

var shimmed = map[string]string{
	"sync":        "sync",
	"sync/atomic": "atomic",
	"time":        "time",
	"math/rand":   "rand",
	"context":     "context",
}

func die(format string, a ...any) {
	fmt.Fprintf(os.Stderr, "ENGINE-ERROR instr: "+format+"\n", a...)
	os.Exit(2)
}

func main() {
	repo := flag.String("repo", "/repo", "repository working tree")
	verif := flag.String("verif", "/verif", "verification tree (shim/, harness/)")
	out := flag.String("out", "", "scratch output directory")
	flag.Parse()
	if *out == "" {
		die("-out required")
	}
	modPath, goLine := readGoMod(filepath.Join(*repo, "go.mod"))
	must(os.MkdirAll(*out, 0o755))
	build.Default.Dir = *out // go/build resolves module-local imports by running `go list` there
	must(os.WriteFile(filepath.Join(*out, "go.mod"), []byte("module "+modPath+"\n\n"+goLine+"\n"), 0o644))
	vbase := modPath + "/internal/v/"

	// shim runtime, verbatim
	for _, d := range []string{"vrt", "sync", "atomic", "time", "rand"} {
		copyDir(filepath.Join(*verif, "shim", d), filepath.Join(*out, "internal", "v", d), func(b []byte) []byte {
			return bytes.ReplaceAll(b, []byte("github.com/joeycumines/go-bigbuff/internal/v/"), []byte(vbase))
		})
	}

	// the toolchain's context package, instrumented like the library
	ctxDir := filepath.Join(*out, "internal", "v", "context")
	must(os.MkdirAll(ctxDir, 0o755))
	src, err := os.ReadFile(filepath.Join(runtime.GOROOT(), "src", "context", "context.go"))
	must(err)
	src = bytes.Replace(src, []byte(`"internal/reflectlite"`), []byte(`reflectlite "reflect"`), 1)
	must(os.WriteFile(filepath.Join(ctxDir, "context.go"), src, 0o644))
	instrumentPkg(ctxDir, vbase, nil, "")

	// library + harness
	lineOf := map[string]string{}
	ents, err := os.ReadDir(*repo)
	must(err)
	for _, e := range ents {
		n := e.Name()
		if e.IsDir() || !strings.HasSuffix(n, ".go") || strings.HasSuffix(n, "_test.go") {
			continue
		}
		b, err := os.ReadFile(filepath.Join(*repo, n))
		must(err)
		must(os.WriteFile(filepath.Join(*out, n), b, 0o644))
		lineOf[n] = filepath.Join(*repo, n)
	}
	hents, err := os.ReadDir(filepath.Join(*verif, "harness"))
	must(err)
	for _, e := range hents {
		n := e.Name()
		if e.IsDir() || !strings.HasSuffix(n, ".go") {
			continue
		}
		b, err := os.ReadFile(filepath.Join(*verif, "harness", n))
		must(err)
		b = bytes.ReplaceAll(b, []byte("github.com/joeycumines/go-bigbuff/internal/v/"), []byte(vbase))
		must(os.WriteFile(filepath.Join(*out, n), b, 0o644))
		lineOf[n] = filepath.Join(*verif, "harness", n)
	}
	instrumentPkg(*out, vbase, lineOf, "vh_")
}

func must(err error) {
	if err != nil {
		die("%v", err)
	}
}

func readGoMod(p string) (mod, goLine string) {
	b, err := os.ReadFile(p)
	must(err)
	goLine = "go 1.23"
	for _, l := range strings.Split(string(b), "\n") {
		l = strings.TrimSpace(l)
		if strings.HasPrefix(l, "module ") {
			mod = strings.TrimSpace(strings.TrimPrefix(l, "module "))
		}
		if strings.HasPrefix(l, "go ") {
			goLine = l
		}
	}
	if mod == "" {
		die("no module line in %s", p)
	}
	return
}

func copyDir(from, to string, edit func([]byte) []byte) {
	must(os.MkdirAll(to, 0o755))
	ents, err := os.ReadDir(from)
	must(err)
	for _, e := range ents {
		if e.IsDir() {
			continue
		}
		b, err := os.ReadFile(filepath.Join(from, e.Name()))
		must(err)
		must(os.WriteFile(filepath.Join(to, e.Name()), edit(b), 0o644))
	}
}

// ---------------------------------------------------------------------------------------------

type rewriter struct {
	fset    *token.FileSet
	info    *types.Info
	vbase   string
	harness bool // current file is a harness driver (vrt.GoH instead of vrt.Go)
	ntmp    int
	changed bool

	recvCalls map[*ast.CallExpr]bool
	rangeKind map[*ast.RangeStmt]string
	mapAssign map[ast.Stmt]bool
	prepend   map[ast.Stmt][]ast.Stmt
}

// instrumentPkg rewrites every non-test .go file of dir in place. Files whose name starts
// with "vo_" (oracles) or ends in _test.go are type-checked with the package but not rewritten,
// except for their imports of shimmed packages.
func instrumentPkg(dir, vbase string, lineOf map[string]string, harnessPrefix string) {
	fset := token.NewFileSet()
	ents, err := os.ReadDir(dir)
	must(err)
	var files []*ast.File
	var names []string
	for _, e := range ents {
		n := e.Name()
		if e.IsDir() || !strings.HasSuffix(n, ".go") || strings.HasSuffix(n, "_test.go") {
			continue
		}
		f, err := parser.ParseFile(fset, filepath.Join(dir, n), nil, parser.ParseComments|parser.SkipObjectResolution)
		if err != nil {
			die("parse %s: %v", n, err)
		}
		files = append(files, f)
		names = append(names, n)
	}
	info := &types.Info{
		Types:      map[ast.Expr]types.TypeAndValue{},
		Uses:       map[*ast.Ident]types.Object{},
		Defs:       map[*ast.Ident]types.Object{},
		Selections: map[*ast.SelectorExpr]*types.Selection{},
	}
	var terrs []string
	conf := types.Config{
		Importer: importer.ForCompiler(fset, "source", nil),
		Error: func(err error) {
			if len(terrs) < 10 {
				terrs = append(terrs, err.Error())
			}
		},
	}
	conf.Check(files[0].Name.Name, fset, files, info)
	if len(terrs) > 0 {
		die("type errors in %s:\n  %s", dir, strings.Join(terrs, "\n  "))
	}
	for i, f := range files {
		n := names[i]
		rw := &rewriter{fset: fset, info: info, vbase: vbase,
			harness:   harnessPrefix != "" && strings.HasPrefix(n, harnessPrefix),
			recvCalls: map[*ast.CallExpr]bool{}, rangeKind: map[*ast.RangeStmt]string{},
			mapAssign: map[ast.Stmt]bool{}, prepend: map[ast.Stmt][]ast.Stmt{}}
		full := !strings.HasPrefix(n, "vo_")
		if full {
			for j, d := range f.Decls {
				f.Decls[j] = rw.apply(d).(ast.Decl)
			}
		}
		rw.rewriteImports(f, full)
		orig := filepath.Join(dir, n)
		if lineOf != nil && lineOf[n] != "" {
			orig = lineOf[n]
		}
		must(os.WriteFile(filepath.Join(dir, n), rw.print(f, orig, full), 0o644))
	}
}

func (rw *rewriter) rewriteImports(f *ast.File, addVrt bool) {
	hasVrt := false
	for _, im := range f.Imports {
		p := strings.Trim(im.Path.Value, `"`)
		if s, ok := shimmed[p]; ok {
			im.Path.Value = `"` + rw.vbase + s + `"`
		}
		if p == rw.vbase+"vrt" && (im.Name == nil || im.Name.Name == "vrt") {
			hasVrt = true
		}
	}
	if addVrt && !hasVrt {
		spec := &ast.ImportSpec{Name: ast.NewIdent("vrt"), Path: &ast.BasicLit{Kind: token.STRING, Value: `"` + rw.vbase + `vrt"`}}
		gd := &ast.GenDecl{Tok: token.IMPORT, Specs: []ast.Spec{spec}}
		f.Decls = append([]ast.Decl{gd}, f.Decls...)
		f.Imports = append(f.Imports, spec)
	}
}

// print emits the file declaration by declaration, each preceded by a //line directive that
// points at the original source, so that traces and race reports show repository positions.
func (rw *rewriter) print(f *ast.File, orig string, addUse bool) []byte {
	var buf bytes.Buffer
	cfg := printer.Config{Mode: printer.UseSpaces | printer.TabIndent, Tabwidth: 8}
	if f.Doc != nil {
		for _, c := range f.Doc.List {
			if strings.HasPrefix(c.Text, "//go:build") {
				buf.WriteString(c.Text + "\n\n")
			}
		}
	}
	fmt.Fprintf(&buf, "package %s\n\n", f.Name.Name)
	for _, d := range f.Decls {
		if gd, ok := d.(*ast.GenDecl); ok && gd.Tok == token.IMPORT {
			buf.WriteString("import (\n")
			for _, s := range gd.Specs {
				im := s.(*ast.ImportSpec)
				if im.Name != nil {
					fmt.Fprintf(&buf, "\t%s %s\n", im.Name.Name, im.Path.Value)
				} else {
					fmt.Fprintf(&buf, "\t%s\n", im.Path.Value)
				}
			}
			buf.WriteString(")\n\n")
			continue
		}
		pos := rw.fset.Position(d.Pos())
		var doc *ast.CommentGroup
		switch x := d.(type) {
		case *ast.FuncDecl:
			doc = x.Doc
		case *ast.GenDecl:
			doc = x.Doc
		}
		line := pos.Line
		if doc != nil {
			// keep compiler directives (//go:...), drop prose
			for _, c := range doc.List {
				if strings.HasPrefix(c.Text, "//go:") {
					buf.WriteString(c.Text + "\n")
				}
			}
			switch x := d.(type) {
			case *ast.FuncDecl:
				x.Doc = nil
			case *ast.GenDecl:
				x.Doc = nil
			}
		}
		if pos.IsValid() {
			fmt.Fprintf(&buf, "//line %s:%d\n", orig, line)
		}
		if err := cfg.Fprint(&buf, rw.fset, d); err != nil {
			die("print: %v", err)
		}
		buf.WriteString("\n\n")
	}
	if addUse {
		buf.WriteString("var _ = vrt.Managed\n")
	}
	return buf.Bytes()
}

// ---- generic AST walker with replacement -------------------------------------------------------

var (
	nodeType  = reflect.TypeOf((*ast.Node)(nil)).Elem()
	objType   = reflect.TypeOf((*ast.Object)(nil))
	scopeType = reflect.TypeOf((*ast.Scope)(nil))
	cgType    = reflect.TypeOf((*ast.CommentGroup)(nil))
)

func (rw *rewriter) apply(n ast.Node) ast.Node {
	if n == nil || reflect.ValueOf(n).IsNil() {
		return n
	}
	if r, done := rw.pre(n); done {
		return r
	}
	rw.children(n)
	return rw.post(n)
}

func (rw *rewriter) children(n ast.Node) {
	v := reflect.ValueOf(n)
	if v.Kind() != reflect.Ptr {
		return
	}
	v = v.Elem()
	if v.Kind() != reflect.Struct {
		return
	}
	for i := 0; i < v.NumField(); i++ {
		f := v.Field(i)
		rw.field(f)
	}
}

func (rw *rewriter) field(f reflect.Value) {
	switch f.Kind() {
	case reflect.Interface:
		if f.IsNil() {
			return
		}
		if n, ok := f.Interface().(ast.Node); ok {
			r := rw.apply(n)
			if r != n {
				f.Set(reflect.ValueOf(r))
			}
		}
	case reflect.Ptr:
		if f.IsNil() || f.Type() == objType || f.Type() == scopeType || f.Type() == cgType {
			return
		}
		if f.Type().Implements(nodeType) {
			n := f.Interface().(ast.Node)
			r := rw.apply(n)
			if r != n {
				rv := reflect.ValueOf(r)
				if !rv.Type().AssignableTo(f.Type()) {
					die("cannot replace %T by %T at %s", n, r, rw.fset.Position(n.Pos()))
				}
				f.Set(rv)
			}
		}
	case reflect.Slice:
		for i := 0; i < f.Len(); i++ {
			rw.field(f.Index(i))
		}
	}
}

// ---- helpers -----------------------------------------------------------------------------------

func vrtSel(name string) ast.Expr {
	return &ast.SelectorExpr{X: ast.NewIdent("vrt"), Sel: ast.NewIdent(name)}
}

func call(fun ast.Expr, args ...ast.Expr) *ast.CallExpr { return &ast.CallExpr{Fun: fun, Args: args} }

func (rw *rewriter) tmp(prefix string) *ast.Ident {
	rw.ntmp++
	return ast.NewIdent(fmt.Sprintf("vrt_%s%d", prefix, rw.ntmp))
}

func define(lhs *ast.Ident, rhs ast.Expr) ast.Stmt {
	return &ast.AssignStmt{Lhs: []ast.Expr{lhs}, Tok: token.DEFINE, Rhs: []ast.Expr{rhs}}
}

func (rw *rewriter) typeOf(e ast.Expr) types.Type {
	if tv, ok := rw.info.Types[e]; ok {
		return tv.Type
	}
	return nil
}

func (rw *rewriter) isConstOrNil(e ast.Expr) bool {
	tv, ok := rw.info.Types[e]
	if !ok {
		return false
	}
	return tv.Value != nil || tv.IsNil()
}

func isChan(t types.Type) bool {
	if t == nil {
		return false
	}
	if tp, ok := t.(*types.TypeParam); ok {
		t = tp.Underlying()
		if it, ok := t.(*types.Interface); ok {
			// core type of the constraint
			var core types.Type
			for i := 0; i < it.NumEmbeddeds(); i++ {
				et := it.EmbeddedType(i)
				if u, ok := et.(*types.Union); ok && u.Len() == 1 {
					et = u.Term(0).Type()
				}
				core = et.Underlying()
			}
			_, ok := core.(*types.Chan)
			return ok
		}
	}
	_, ok := t.Underlying().(*types.Chan)
	return ok
}

func isMap(t types.Type) bool {
	if t == nil {
		return false
	}
	_, ok := t.Underlying().(*types.Map)
	return ok
}

func simpleExpr(e ast.Expr) bool {
	switch x := e.(type) {
	case *ast.Ident, *ast.BasicLit:
		return true
	case *ast.SelectorExpr:
		return simpleExpr(x.X)
	case *ast.ParenExpr:
		return simpleExpr(x.X)
	case *ast.StarExpr:
		return simpleExpr(x.X)
	}
	return false
}

// ---- pre: constructs that must be handled before their children --------------------------------

func (rw *rewriter) pre(n ast.Node) (ast.Node, bool) {
	switch x := n.(type) {
	case *ast.SelectStmt:
		temps, sw := rw.selectStmt(x)
		return &ast.BlockStmt{List: append(temps, sw)}, true
	case *ast.LabeledStmt:
		if s, ok := x.Stmt.(*ast.SelectStmt); ok {
			temps, sw := rw.selectStmt(s)
			x.Stmt = sw
			return &ast.BlockStmt{List: append(temps, ast.Stmt(x))}, true
		}
	case *ast.RangeStmt:
		t := rw.typeOf(x.X)
		switch {
		case isChan(t):
			rw.rangeKind[x] = "chan"
		case isMap(t):
			rw.rangeKind[x] = "map"
		}
	case *ast.AssignStmt:
		for _, l := range x.Lhs {
			if ix, ok := l.(*ast.IndexExpr); ok && isMap(rw.typeOf(ix.X)) {
				rw.mapAssign[x] = true
			}
		}
	case *ast.IncDecStmt:
		if ix, ok := x.X.(*ast.IndexExpr); ok && isMap(rw.typeOf(ix.X)) {
			rw.mapAssign[x] = true
		}
	}
	return nil, false
}

func (rw *rewriter) selectStmt(s *ast.SelectStmt) ([]ast.Stmt, ast.Stmt) {
	rw.changed = true
	var temps []ast.Stmt
	var cases []ast.Expr
	sid := rw.tmp("s")
	sw := &ast.SwitchStmt{Tag: &ast.SelectorExpr{X: sid, Sel: ast.NewIdent("I")}, Body: &ast.BlockStmt{}}
	hasDef := false
	arm := 0
	post := func() ast.Stmt {
		return &ast.ExprStmt{X: call(&ast.SelectorExpr{X: ast.NewIdent(sid.Name), Sel: ast.NewIdent("Post")})}
	}
	for _, c := range s.Body.List {
		cc := c.(*ast.CommClause)
		var body []ast.Stmt
		for _, b := range cc.Body {
			body = append(body, rw.apply(b).(ast.Stmt))
		}
		body = rw.expand(body)
		if cc.Comm == nil {
			hasDef = true
			sw.Body.List = append(sw.Body.List, &ast.CaseClause{Body: body})
			continue
		}
		var real ast.Stmt
		switch st := cc.Comm.(type) {
		case *ast.SendStmt:
			ch := rw.tmp("c")
			temps = append(temps, define(ch, rw.apply(st.Chan).(ast.Expr)))
			v := rw.tmp("v")
			temps = append(temps, define(v, call(call(vrtSel("SendVal"), ast.NewIdent(ch.Name)), rw.apply(st.Value).(ast.Expr))))
			cases = append(cases, call(vrtSel("SendCase"), ast.NewIdent(ch.Name)))
			real = &ast.SendStmt{Chan: ast.NewIdent(ch.Name), Value: ast.NewIdent(v.Name)}
		case *ast.ExprStmt:
			u := unparen(st.X).(*ast.UnaryExpr)
			ch := rw.tmp("c")
			temps = append(temps, define(ch, rw.apply(u.X).(ast.Expr)))
			cases = append(cases, call(vrtSel("RecvCase"), ast.NewIdent(ch.Name)))
			real = &ast.ExprStmt{X: &ast.UnaryExpr{Op: token.ARROW, X: ast.NewIdent(ch.Name)}}
		case *ast.AssignStmt:
			u := unparen(st.Rhs[0]).(*ast.UnaryExpr)
			ch := rw.tmp("c")
			temps = append(temps, define(ch, rw.apply(u.X).(ast.Expr)))
			cases = append(cases, call(vrtSel("RecvCase"), ast.NewIdent(ch.Name)))
			lhs := make([]ast.Expr, len(st.Lhs))
			for i, l := range st.Lhs {
				lhs[i] = rw.apply(l).(ast.Expr)
			}
			real = &ast.AssignStmt{Lhs: lhs, Tok: st.Tok, Rhs: []ast.Expr{&ast.UnaryExpr{Op: token.ARROW, X: ast.NewIdent(ch.Name)}}}
		default:
			die("unsupported select comm clause %T at %s", cc.Comm, rw.fset.Position(cc.Pos()))
		}
		cl := &ast.CaseClause{List: []ast.Expr{&ast.BasicLit{Kind: token.INT, Value: fmt.Sprint(arm)}},
			Body: append([]ast.Stmt{real, post()}, body...)}
		sw.Body.List = append(sw.Body.List, cl)
		arm++
	}
	args := []ast.Expr{ast.NewIdent(fmt.Sprint(hasDef))}
	args = append(args, cases...)
	temps = append(temps, define(sid, call(vrtSel("Select"), args...)))
	return temps, sw
}

func unparen(e ast.Expr) ast.Expr {
	for {
		p, ok := e.(*ast.ParenExpr)
		if !ok {
			return e
		}
		e = p.X
	}
}

// expand inserts the statements registered in rw.prepend in front of their statement.
func (rw *rewriter) expand(list []ast.Stmt) []ast.Stmt {
	var out []ast.Stmt
	for _, s := range list {
		if p, ok := rw.prepend[s]; ok {
			out = append(out, p...)
			delete(rw.prepend, s)
		}
		out = append(out, s)
	}
	return out
}

// ---- post --------------------------------------------------------------------------------------

func (rw *rewriter) post(n ast.Node) ast.Node {
	switch x := n.(type) {
	case *ast.BlockStmt:
		x.List = rw.expand(x.List)
	case *ast.CaseClause:
		x.Body = rw.expand(x.Body)
	case *ast.CommClause:
		x.Body = rw.expand(x.Body)

	case *ast.SendStmt:
		rw.changed = true
		return &ast.ExprStmt{X: call(call(vrtSel("SendF"), x.Chan), x.Value)}

	case *ast.UnaryExpr:
		if x.Op == token.ARROW {
			rw.changed = true
			c := call(vrtSel("Recv"), x.X)
			rw.recvCalls[c] = true
			return c
		}

	case *ast.AssignStmt:
		if len(x.Lhs) == 2 && len(x.Rhs) == 1 {
			if c, ok := unparen(x.Rhs[0]).(*ast.CallExpr); ok && rw.recvCalls[c] {
				c.Fun = vrtSel("Recv2")
			}
		}
		if rw.mapAssign[x] {
			return rw.mapAssignStmt(x)
		}

	case *ast.IncDecStmt:
		if rw.mapAssign[x] {
			ix := x.X.(*ast.IndexExpr)
			if simpleExpr(ix.X) && simpleExpr(ix.Index) {
				rw.prepend[x] = []ast.Stmt{&ast.ExprStmt{X: call(vrtSel("MapTouch"), ix.X, ix.Index)}}
			}
		}

	case *ast.ValueSpec:
		if len(x.Names) == 2 && len(x.Values) == 1 {
			if c, ok := unparen(x.Values[0]).(*ast.CallExpr); ok && rw.recvCalls[c] {
				c.Fun = vrtSel("Recv2")
			}
		}

	case *ast.CallExpr:
		return rw.callExpr(x)

	case *ast.GoStmt:
		return rw.goStmt(x)

	case *ast.RangeStmt:
		switch rw.rangeKind[x] {
		case "chan":
			rw.changed = true
			x.X = call(vrtSel("RangeChan"), x.X)
		case "map":
			rw.changed = true
			x.X = call(vrtSel("MapRange"), x.X)
		}
	}
	return n
}

func (rw *rewriter) mapAssignStmt(x *ast.AssignStmt) ast.Node {
	if x.Tok == token.ASSIGN && len(x.Lhs) == 1 && len(x.Rhs) == 1 {
		ix := x.Lhs[0].(*ast.IndexExpr)
		rw.changed = true
		return &ast.ExprStmt{X: call(vrtSel("MapSet"), ix.X, ix.Index, x.Rhs[0])}
	}
	var pre []ast.Stmt
	for _, l := range x.Lhs {
		if ix, ok := l.(*ast.IndexExpr); ok && isMap(rw.typeOf(ix.X)) && simpleExpr(ix.X) && simpleExpr(ix.Index) {
			pre = append(pre, &ast.ExprStmt{X: call(vrtSel("MapTouch"), ix.X, ix.Index)})
		}
	}
	if len(pre) > 0 {
		rw.prepend[x] = pre
	}
	return x
}

func (rw *rewriter) callExpr(x *ast.CallExpr) ast.Node {
	switch f := unparen(x.Fun).(type) {
	case *ast.Ident:
		if f.Name == "close" && len(x.Args) == 1 {
			if _, ok := rw.info.Uses[f].(*types.Builtin); ok {
				rw.changed = true
				x.Fun = vrtSel("Close")
			}
		}
	case *ast.SelectorExpr:
		if obj, ok := rw.info.Uses[f.Sel].(*types.Func); ok && obj.Pkg() != nil {
			sig, _ := obj.Type().(*types.Signature)
			pkg := obj.Pkg().Path()
			if sig != nil && sig.Recv() == nil {
				switch {
				case pkg == "reflect" && obj.Name() == "Select":
					rw.changed = true
					x.Fun = vrtSel("ReflectSelect")
				case pkg == "runtime" && obj.Name() == "Gosched":
					rw.changed = true
					x.Fun = vrtSel("Yield")
				}
			} else if sig != nil && pkg == "reflect" {
				if named, ok := sig.Recv().Type().(*types.Named); ok && named.Obj().Name() == "Value" {
					helper := map[string]string{"TryRecv": "ReflectTryRecv", "TrySend": "ReflectTrySend",
						"Recv": "ReflectRecv", "Send": "ReflectSend", "Close": "ReflectClose"}[obj.Name()]
					if helper != "" {
						rw.changed = true
						x.Args = append([]ast.Expr{f.X}, x.Args...)
						x.Fun = vrtSel(helper)
					}
				}
			}
		}
	}
	return x
}

func (rw *rewriter) goStmt(g *ast.GoStmt) ast.Node {
	rw.changed = true
	goFn := "Go"
	if rw.harness {
		goFn = "GoH"
	}
	c := g.Call
	if fl, ok := unparen(c.Fun).(*ast.FuncLit); ok && len(c.Args) == 0 {
		return &ast.ExprStmt{X: call(vrtSel(goFn), fl)}
	}
	var pre []ast.Stmt
	fun := c.Fun
	if _, isLit := unparen(fun).(*ast.FuncLit); !isLit {
		isBuiltinOrType := false
		if id, ok := unparen(fun).(*ast.Ident); ok {
			switch rw.info.Uses[id].(type) {
			case *types.Builtin, *types.TypeName:
				isBuiltinOrType = true
			}
		}
		if !isBuiltinOrType {
			f := rw.tmp("f")
			pre = append(pre, define(f, fun))
			fun = ast.NewIdent(f.Name)
		}
	}
	args := make([]ast.Expr, len(c.Args))
	for i, a := range c.Args {
		if rw.isConstOrNil(a) {
			args[i] = a
			continue
		}
		t := rw.tmp("a")
		pre = append(pre, define(t, a))
		args[i] = ast.NewIdent(t.Name)
	}
	inner := &ast.CallExpr{Fun: fun, Args: args, Ellipsis: c.Ellipsis}
	if c.Ellipsis.IsValid() {
		inner.Ellipsis = 1
	}
	lit := &ast.FuncLit{Type: &ast.FuncType{Params: &ast.FieldList{}}, Body: &ast.BlockStmt{List: []ast.Stmt{&ast.ExprStmt{X: inner}}}}
	pre = append(pre, &ast.ExprStmt{X: call(vrtSel(goFn), lit)})
	return &ast.BlockStmt{List: pre}
}

var _ = sort.Strings
