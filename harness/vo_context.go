package bigbuff

import (
	"fmt"

	"github.com/joeycumines/go-bigbuff/internal/v/vrt"
)

func contextCheck(r *vrt.Result) string {
	if r.Status == vrt.StSteps {
		return "step-horizon: execution exceeded the step horizon"
	}
	if len(r.Panics) > 0 {
		return fmt.Sprintf("panic: %s in T%s", r.Panics[0].Msg, r.Panics[0].Thread)
	}
	nf, phase1, sawPhase1, end, phase2 := 0, false, false, false, true
	fBeforePhase1 := 0
	for _, e := range r.Events {
		switch e.Kind {
		case "constructed":
			if e.Args[0].(bool) != e.Args[1].(bool) {
				return fmt.Sprintf("at-construction: result cancelled=%v at construction, specification says %v", e.Args[0], e.Args[1])
			}
		case "value":
			if !e.Args[0].(bool) {
				return "values: the result does not carry the primary / first input's values"
			}
		case "still-live":
			if !e.Args[0].(bool) {
				return "cancelled-early: the result was cancelled although the specified condition does not hold"
			}
		case "f":
			nf++
			if !sawPhase1 {
				fBeforePhase1++
			}
		case "phase1":
			sawPhase1 = true
			phase1 = e.Args[0].(bool)
		case "phase2":
			phase2 = e.Args[0].(bool)
		case "end":
			end = true
		}
	}
	if r.Status != vrt.StOK {
		if !sawPhase1 && nf == 0 {
			for _, e := range r.Events {
				if e.Kind == "input" && (e.Str(0) == "a" || e.Str(0) == "b") {
					return fmt.Sprintf("f-not-run: a context was cancelled but the chained function never ran (%s): %v", r.Status, r.Blocked)
				}
			}
		}
		return fmt.Sprintf("not-cancelled: the result never became cancelled (%s): %v", r.Status, r.Blocked)
	}
	if !end {
		return "no-end: the driver did not finish"
	}
	if sawPhase1 {
		if nf > 1 {
			return fmt.Sprintf("f-twice: the chained function ran %d times", nf)
		}
		if phase1 && fBeforePhase1 != 1 {
			return "f-not-run: a context was cancelled but the chained function had not run at quiescence"
		}
		if !phase1 && fBeforePhase1 != 0 {
			return "f-spurious: the chained function ran although neither context was cancelled"
		}
		if phase2 && nf != 1 {
			return fmt.Sprintf("f-count: the chained function ran %d times after the contexts were cancelled", nf)
		}
		if !phase2 && nf != 0 {
			return "f-spurious: the chained function ran although neither context can be cancelled"
		}
	}
	if len(r.Leaked) > 0 {
		return fmt.Sprintf("goroutine-leak: %v", r.Leaked)
	}
	return ""
}
