package bigbuff

import (
	"context"
	"sync"
	"time"

	"github.com/joeycumines/go-bigbuff/internal/v/vrt"
)

// C11, publication clause: payloads are pointers whose target is written (plainly) by the
// supplier before the hand-over and read (plainly) by the recipient after it. A missing
// happens-before edge on the path through the library is then a race report on the payload.

type payload struct{ x int }

func sink(p *payload) { vrt.Log("payload", p.x) }

func init() {
	reg := func(name, desc string, run func()) {
		vrt.Register(&vrt.Scenario{Name: "P-" + name, Props: []string{"C11:race", "C12:goroutine-leak"}, Quick: 1, Thorough: 2, Desc: desc,
			Opts: vrt.Options{Delay: true}, Run: run, Check: func(r *vrt.Result) string { return baseCheck(r, true, true, true) }})
	}
	reg("buffer", "payload pointers through Buffer.Put -> Consumer.Get (sync and async paths)", func() {
		b := new(Buffer)
		c, _ := b.NewConsumer()
		var wg sync.WaitGroup
		wg.Add(2)
		go func() {
			defer wg.Done()
			for i := 0; i < 2; i++ {
				p := &payload{}
				p.x = i + 1
				b.Put(nil, p)
			}
		}()
		go func() {
			defer wg.Done()
			for i := 0; i < 2; i++ {
				v, err := c.Get(nil)
				if err == nil {
					sink(v.(*payload))
					c.Commit()
				}
			}
		}()
		wg.Wait()
		for _, v := range b.Slice() {
			if v != nil {
				sink(v.(*payload))
			}
		}
		b.Close()
	})
	reg("channel", "payload pointers through a source channel -> Channel.Get / Buffer()", func() {
		src := make(chan *payload, 2)
		c, _ := NewChannel(nil, time.Millisecond, src)
		var wg sync.WaitGroup
		wg.Add(2)
		go func() {
			defer wg.Done()
			p := &payload{}
			p.x = 1
			src <- p
		}()
		go func() {
			defer wg.Done()
			if v, err := c.Get(nil); err == nil {
				sink(v.(*payload))
			}
		}()
		wg.Wait()
		for _, v := range c.Buffer() {
			sink(v.(*payload))
		}
		c.Close()
	})
	reg("pubsub", "payload pointers through ChanPubSub.Send -> subscriber", func() {
		ps := NewChanPubSub(make(chan *payload))
		sub := make(chan struct{})
		var wg sync.WaitGroup
		wg.Add(1)
		go func() {
			defer wg.Done()
			ps.Add(1)
			close(sub)
			p := <-ps.C()
			ps.Wait()
			sink(p)
			ps.Add(-1)
		}()
		<-sub
		p := &payload{}
		p.x = 1
		ps.Send(p)
		wg.Wait()
	})
	reg("caster", "payload pointers through ChanCaster.Send -> receivers", func() {
		c := NewChanCaster(make(chan *payload))
		var wg sync.WaitGroup
		reg := make(chan struct{}, 2)
		for i := 0; i < 2; i++ {
			wg.Add(1)
			go func() {
				defer wg.Done()
				c.Add(1)
				reg <- struct{}{}
				sink(<-c.C)
			}()
		}
		<-reg
		<-reg
		p := &payload{}
		p.x = 1
		c.Send(p)
		wg.Wait()
	})
	reg("exclusive", "payload pointers returned by an Exclusive work function to coalesced callers", func() {
		var e Exclusive
		var wg sync.WaitGroup
		for i := 0; i < 2; i++ {
			wg.Add(1)
			go func() {
				defer wg.Done()
				r, _ := e.Call("k", func() (interface{}, error) {
					p := &payload{}
					p.x = i + 1
					return p, nil
				})
				sink(r.(*payload))
			}()
		}
		wg.Wait()
	})
	reg("workers", "payload pointers returned through Workers.Call", func() {
		var w Workers
		var wg sync.WaitGroup
		for i := 0; i < 2; i++ {
			wg.Add(1)
			go func() {
				defer wg.Done()
				in := &payload{}
				in.x = i + 1
				r, _ := w.Call(2, func() (interface{}, error) {
					out := &payload{}
					out.x = in.x * 10 // the function runs on a worker goroutine: reads the caller's payload
					return out, nil
				})
				sink(r.(*payload))
			}()
		}
		wg.Wait()
		w.Wait()
	})
	reg("notifier", "payload pointers through Notifier.Publish -> subscribed channel", func() {
		var n Notifier
		c := make(chan *payload)
		n.Subscribe("k", c)
		var wg sync.WaitGroup
		wg.Add(1)
		go func() {
			defer wg.Done()
			sink(<-c)
		}()
		p := &payload{}
		p.x = 1
		n.Publish("k", p)
		wg.Wait()
		n.Unsubscribe("k", c)
	})
	reg("worker", "state written before Worker.Do, read by the worker function; state written by it, read after done and exit", func() {
		var w Worker
		in := &payload{}
		in.x = 1
		out := &payload{}
		exited := make(chan struct{})
		done := w.Do(func(stop <-chan struct{}) {
			out.x = in.x + 1
			<-stop
			close(exited)
		})
		done()
		<-exited
		sink(out)
	})
	reg("contexts", "values written before cancel, read after the combined context is observed cancelled", func() {
		a, ca := context.WithCancel(context.Background())
		b, cb := context.WithCancel(context.Background())
		defer cb()
		r := CombineContext(a, b)
		p := &payload{}
		go func() {
			p.x = 1
			ca()
		}()
		<-r.Done()
		sink(p)
	})
}
