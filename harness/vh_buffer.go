package bigbuff

import (
	"context"
	"regexp"
	"strings"
	"sync"
	"time"

	"github.com/joeycumines/go-bigbuff/internal/v/vrt"
)

// Buffer drivers (DESIGN Appendix E). Every public call is logged as c:<op> / r:<op> events
// carrying an operation id (a fresh stamp), the handle id and arguments / results.

var ptrRe = regexp.MustCompile(`0x[0-9a-f]+`)

// errStr renders an error for the log with pointer values masked (they differ between runs).
func errStr(err error) string {
	if err == nil {
		return ""
	}
	return ptrRe.ReplaceAllString(err.Error(), "0xPTR")
}

func tok(v interface{}) int {
	if i, ok := v.(int); ok {
		return i
	}
	return -999
}

type bufH struct {
	b *Buffer
}

func newBufH(cooldown time.Duration, cleaner Cleaner) bufH {
	b := new(Buffer)
	// the first call completes before the Buffer is shared (documented lazy-init caveat)
	cfg := b.CleanerConfig()
	cfg.Cooldown = cooldown
	if cleaner != nil {
		cfg.Cleaner = cleaner
	}
	if err := b.SetCleanerConfig(cfg); err != nil {
		panic(err)
	}
	return bufH{b}
}

func (h bufH) put(ctxid int, ctx context.Context, vals ...int) bool {
	id := int(vrt.Stamp())
	args := []any{id, -1, ctxid}
	anyVals := make([]interface{}, len(vals))
	for i, v := range vals {
		args = append(args, v)
		anyVals[i] = v
	}
	vrt.Log("c:Put", args...)
	err := h.b.Put(ctx, anyVals...)
	// the caller owns its argument slice again once Put has returned: reuse it
	for i := range anyVals {
		anyVals[i] = -777
	}
	vrt.Log("r:Put", id, errStr(err))
	return err == nil
}

type bufC struct {
	c  Consumer
	id int
}

func (h bufH) newC() bufC {
	id := int(vrt.Stamp())
	vrt.Log("c:New", id, -1)
	c, err := h.b.NewConsumer()
	vrt.Log("r:New", id, errStr(err))
	return bufC{c, id}
}

func (c bufC) get(ctxid int, ctx context.Context) (int, bool) {
	if c.c == nil {
		return 0, false
	}
	id := int(vrt.Stamp())
	vrt.Log("c:Get", id, c.id, ctxid)
	v, err := c.c.Get(ctx)
	t := -1
	if err == nil {
		t = tok(v)
	}
	vrt.Log("r:Get", id, t, errStr(err))
	return t, err == nil
}

func (c bufC) commit() bool {
	if c.c == nil {
		return false
	}
	id := int(vrt.Stamp())
	vrt.Log("c:Commit", id, c.id)
	err := c.c.Commit()
	vrt.Log("r:Commit", id, errStr(err))
	return err == nil
}

func (c bufC) rollback() bool {
	if c.c == nil {
		return false
	}
	id := int(vrt.Stamp())
	vrt.Log("c:Rollback", id, c.id)
	err := c.c.Rollback()
	vrt.Log("r:Rollback", id, errStr(err))
	return err == nil
}

func (c bufC) close() bool {
	if c.c == nil {
		return false
	}
	id := int(vrt.Stamp())
	vrt.Log("c:CloseC", id, c.id)
	err := c.c.Close()
	vrt.Log("r:CloseC", id, errStr(err))
	return err == nil
}

func (h bufH) closeB() bool {
	id := int(vrt.Stamp())
	vrt.Log("c:CloseB", id, -1)
	err := h.b.Close()
	vrt.Log("r:CloseB", id, errStr(err))
	return err == nil
}

func (h bufH) slice() []int {
	id := int(vrt.Stamp())
	vrt.Log("c:Slice", id, -1)
	s := h.b.Slice()
	out := make([]int, len(s))
	for i, v := range s {
		out[i] = tok(v)
	}
	vrt.Log("r:Slice", id, out)
	return out
}

func (h bufH) size() int {
	id := int(vrt.Stamp())
	vrt.Log("c:Size", id, -1)
	n := h.b.Size()
	vrt.Log("r:Size", id, n)
	return n
}

func (h bufH) diff(c bufC) (int, bool) {
	id := int(vrt.Stamp())
	vrt.Log("c:Diff", id, c.id)
	d, ok := h.b.Diff(c.c)
	vrt.Log("r:Diff", id, d, ok)
	return d, ok
}

func cancelCtx(ctxid int, cancel context.CancelFunc) {
	id := int(vrt.Stamp())
	vrt.Log("c:Cancel", id, -1, ctxid)
	cancel()
	vrt.Log("r:Cancel", id)
}

// finish is the generic end of a Buffer driver (C12): discard uncommitted reads, close the
// buffer, check the Done channels and that the contents stay readable.
func (h bufH) finish(cs ...bufC) {
	for _, c := range cs {
		if c.c != nil {
			c.rollback()
		}
	}
	h.slice()
	h.closeB()
	closed := func(ch <-chan struct{}) bool {
		select {
		case <-ch:
			return true
		default:
			return false
		}
	}
	vrt.Log("done-buffer", closed(h.b.Done()))
	for _, c := range cs {
		if c.c != nil {
			vrt.Log("done-consumer", c.id, closed(c.c.Done()))
		}
	}
	h.slice()
	h.put(0, nil, 99)
	h.newC()
	for _, c := range cs {
		if c.c != nil {
			c.get(0, nil)
			c.commit()
			c.close()
		}
	}
	h.closeB()
}

// B-fifo-2p1c: P1: Put(1,2) ∥ P2: Put(3); Put(4) ∥ C: New; G G C G G C
func bFifo2p1c(cooldown time.Duration) func() {
	return func() {
		h := newBufH(cooldown, nil)
		var wg sync.WaitGroup
		wg.Add(3)
		var c bufC
		go func() {
			defer wg.Done()
			h.put(0, nil, 1, 2)
		}()
		go func() {
			defer wg.Done()
			h.put(0, nil, 3)
			h.put(0, nil, 4)
		}()
		go func() {
			defer wg.Done()
			c = h.newC()
			c.get(0, nil)
			c.get(0, nil)
			c.commit()
			c.get(0, nil)
			c.get(0, nil)
			c.commit()
		}()
		wg.Wait()
		h.finish(c)
	}
}

// B-fifo-late: P: Put(1); Put(2) ∥ C1: New; G C G C (cleaner shifts) ∥ C2: New; G G R G (created while the cleaner may be shifting)
func bFifoLate(cooldown time.Duration) func() {
	return func() {
		h := newBufH(cooldown, nil)
		var wg, wg2 sync.WaitGroup
		wg.Add(2)
		wg2.Add(1)
		var c1, c2 bufC
		ctx, cancel := context.WithCancel(context.Background())
		go func() {
			defer wg.Done()
			h.put(0, nil, 1)
			h.put(0, nil, 2)
		}()
		go func() {
			defer wg.Done()
			c1 = h.newC()
			c1.get(0, nil)
			c1.commit()
			c1.get(0, nil)
			c1.commit()
		}()
		go func() {
			defer wg2.Done()
			c2 = h.newC()
			if _, ok := c2.get(1, ctx); ok {
				c2.rollback()
				c2.get(1, ctx)
			}
		}()
		wg.Wait()
		// the late consumer may have been created after everything was evicted: let it give up
		cancelCtx(1, cancel)
		wg2.Wait()
		h.finish(c1, c2)
	}
}

// B-shared: one consumer shared by two goroutines: T1: G C ∥ T2: G R G
func bShared() {
	h := newBufH(0, nil)
	c := h.newC()
	h.put(0, nil, 1, 2, 3)
	var wg sync.WaitGroup
	wg.Add(2)
	go func() {
		defer wg.Done()
		c.get(0, nil)
		c.commit()
	}()
	go func() {
		defer wg.Done()
		c.get(0, nil)
		c.rollback()
		c.get(0, nil)
	}()
	wg.Wait()
	h.diff(c)
	h.finish(c)
}

// B-txn: P: Put(1..4) ∥ C1: G G R G C G R ∥ C2: (G C)x4 (far ahead; cleaner shifting underneath)
func bTxn() {
	h := newBufH(0, nil)
	c1, c2 := h.newC(), h.newC()
	var wg sync.WaitGroup
	wg.Add(3)
	go func() {
		defer wg.Done()
		h.put(0, nil, 1, 2)
		h.put(0, nil, 3, 4)
	}()
	go func() {
		defer wg.Done()
		c1.get(0, nil)
		c1.get(0, nil)
		c1.rollback()
		c1.get(0, nil)
		c1.commit()
		c1.get(0, nil)
		c1.rollback()
		h.diff(c1)
	}()
	go func() {
		defer wg.Done()
		for i := 0; i < 4; i++ {
			c2.get(0, nil)
			c2.commit()
		}
	}()
	wg.Wait()
	h.slice()
	h.finish(c1, c2)
}

// B-evict: FixedBufferCleaner(2,1). L reads two values without committing and later rolls back
// and reads again; F keeps up; P puts past max.
func bEvict() {
	h := newBufH(0, FixedBufferCleaner(2, 1, nil))
	l, f := h.newC(), h.newC()
	var wg sync.WaitGroup
	wg.Add(3)
	go func() {
		defer wg.Done()
		h.put(0, nil, 1)
		h.put(0, nil, 2)
		h.put(0, nil, 3)
	}()
	go func() {
		defer wg.Done()
		l.get(0, nil)
		l.get(0, nil)
		l.rollback()
		l.get(0, nil)
		l.get(0, nil)
		h.diff(l)
	}()
	go func() {
		defer wg.Done()
		for i := 0; i < 3; i++ {
			f.get(0, nil)
			f.commit()
		}
		h.size()
	}()
	wg.Wait()
	h.slice()
	h.finish(l, f)
}

// B-wake: a Get blocked on an empty buffer vs Put / cancel / Buffer.Close; then a second Get.
func bWake(withPut, withCancel, withClose bool) func() {
	return func() {
		h := newBufH(0, nil)
		c := h.newC()
		ctx, cancel := context.WithCancel(context.Background())
		var wg sync.WaitGroup
		wg.Add(1)
		go func() {
			defer wg.Done()
			if _, ok := c.get(1, ctx); ok {
				c.commit()
			} else if !withClose {
				// a failed Get consumed nothing: the next successful Get returns the first value
				if !withPut {
					h.put(0, nil, 1)
				}
				c.get(0, nil)
				c.commit()
			}
		}()
		if withPut {
			wg.Add(1)
			go func() {
				defer wg.Done()
				h.put(0, nil, 1)
			}()
		}
		if withCancel {
			wg.Add(1)
			go func() {
				defer wg.Done()
				cancelCtx(1, cancel)
			}()
		}
		if withClose {
			wg.Add(1)
			go func() {
				defer wg.Done()
				h.closeB()
			}()
		}
		wg.Wait()
		cancel()
		h.finish(c)
	}
}

// B-close: closes racing operations. A consumer with an uncommitted read gets its Rollback from
// another thread (the documented precondition for Close to terminate).
func bClose(variant int) func() {
	return func() {
		h := newBufH(0, nil)
		c1, c2 := h.newC(), h.newC()
		h.put(0, nil, 1, 2)
		var wg sync.WaitGroup
		switch variant {
		case 0: // Buffer.Close vs Put / NewConsumer / Get+Commit
			wg.Add(4)
			go func() { defer wg.Done(); h.closeB() }()
			go func() { defer wg.Done(); h.put(0, nil, 3) }()
			go func() { defer wg.Done(); h.newC() }()
			go func() {
				defer wg.Done()
				if _, ok := c1.get(0, nil); ok {
					c1.commit()
				}
			}()
		case 1: // consumer.Close (with an uncommitted read, resolved by another thread) vs Buffer.Close vs second Close
			c1.get(0, nil)
			wg.Add(4)
			go func() { defer wg.Done(); c1.close() }()
			go func() { defer wg.Done(); c1.rollback() }()
			go func() { defer wg.Done(); h.closeB() }()
			go func() { defer wg.Done(); c1.close() }()
		case 2: // consumer.Close vs its own Get / Commit, other consumer unaffected
			wg.Add(3)
			go func() { defer wg.Done(); c1.close() }()
			go func() {
				defer wg.Done()
				if _, ok := c1.get(0, nil); ok {
					c1.commit()
				}
			}()
			go func() {
				defer wg.Done()
				c2.get(0, nil)
				c2.commit()
				c2.get(0, nil)
			}()
		case 3: // consumer.Close racing Diff / Buffer.Range on the same consumer from other goroutines
			wg.Add(3)
			go func() { defer wg.Done(); c1.close() }()
			go func() { defer wg.Done(); h.diff(c1); h.diff(c1) }()
			go func() {
				defer wg.Done()
				h.diff(c2)
				c2.get(0, nil)
				h.diff(c2)
			}()
		}
		wg.Wait()
		h.finish(c1, c2)
	}
}

// B-reclaim: every consumer reads and commits everything, then the program goes quiet; the
// buffer must shrink to the slowest consumer's backlog without any further operation (C04).
func bReclaim(nCons int, cooldown time.Duration, lastCloses bool, fixed bool) func() {
	return func() {
		var cl Cleaner
		if fixed {
			cl = FixedBufferCleaner(2, 1, nil)
		}
		h := newBufH(cooldown, cl)
		cs := make([]bufC, nCons)
		for i := range cs {
			cs[i] = h.newC()
		}
		var wg sync.WaitGroup
		wg.Add(1)
		go func() {
			defer wg.Done()
			h.put(0, nil, 1, 2)
			h.put(0, nil, 3)
		}()
		if !fixed {
			for i := range cs {
				wg.Add(1)
				go func() {
					defer wg.Done()
					n := 3
					if lastCloses && i == nCons-1 {
						n = 1 // the slowest consumer un-pins the rest by closing
					}
					for k := 0; k < n; k++ {
						cs[i].get(0, nil)
						cs[i].commit()
					}
					if lastCloses && i == nCons-1 {
						cs[i].close()
					}
				}()
			}
		}
		wg.Wait()
		want := 0
		if fixed {
			want = 2 // size <= max
		}
		vrt.Log("quiet", int(vrt.Elapsed()), want)
		for h.b.Size() > want {
			vrt.Yield()
		}
		vrt.Log("reclaimed", int(vrt.Elapsed()), h.b.Size(), int(cooldown))
		h.finish(cs...)
	}
}

func init() {
	reg := func(name, prop string, q, t int, desc string, run func(), policy func(int, []int) int) {
		props := []string{"C11:race", "C12:goroutine-leak,close-"}
		for _, p := range strings.Split(prop, ",") {
			props = append(props, p)
		}
		check := bufferCheck(policy)
		if prop == "C05" {
			check = bufferCheckSig(policy, "lost-wakeup")
		}
		vrt.Register(&vrt.Scenario{Name: name, Props: props, Quick: q, Thorough: t,
			Desc: desc, Opts: vrt.Options{Delay: true}, Run: run, Check: check})
	}
	ms := time.Millisecond
	reg("B-fifo-2p1c", "C01", 2, 3, "two producers (a batch of 2; two single Puts) vs one consumer reading and committing 4 values; cleaner running, cooldown 0", bFifo2p1c(0), defaultPolicy)
	reg("B-fifo-2p1c-cd", "C01", 1, 2, "same with a 10ms cleaner cooldown (timer events)", bFifo2p1c(10*ms), defaultPolicy)
	reg("B-fifo-late", "C01,C03", 2, 3, "a consumer created while another consumer's commits let the cleaner shift the buffer", bFifoLate(0), defaultPolicy)
	reg("B-shared", "C02", 2, 3, "two goroutines sharing one consumer: Get Commit vs Get Rollback Get", bShared, defaultPolicy)
	reg("B-txn", "C02,C03", 2, 3, "C1: G G R G C G R while C2 commits far ahead and the cleaner shifts underneath", bTxn, defaultPolicy)
	reg("B-evict", "C03", 2, 3, "FixedBufferCleaner(2,1): lagging consumer with uncommitted reads vs fast consumer vs producer past max", bEvict, fixedPolicy(2, 1))
	reg("B-wake-put", "C05", 2, 3, "Get blocked on an empty buffer vs Put", bWake(true, false, false), defaultPolicy)
	reg("B-wake-cancel", "C05", 2, 3, "Get blocked on an empty buffer vs cancellation of its context; the next Get returns the first value", bWake(false, true, false), defaultPolicy)
	reg("B-wake-put+cancel", "C05", 2, 3, "Get blocked on an empty buffer vs Put and cancel", bWake(true, true, false), defaultPolicy)
	reg("B-wake-close", "C05", 2, 3, "Get blocked on an empty buffer vs Buffer.Close", bWake(false, false, true), defaultPolicy)
	reg("B-wake-put+close", "C05", 2, 3, "Get blocked on an empty buffer vs Put and Buffer.Close", bWake(true, false, true), defaultPolicy)
	reg("B-close-0", "C12", 2, 3, "Buffer.Close racing Put, NewConsumer, Get+Commit", bClose(0), defaultPolicy)
	reg("B-close-1", "C12", 2, 3, "consumer.Close with an uncommitted read (rolled back by another thread) racing Buffer.Close and a second Close", bClose(1), defaultPolicy)
	reg("B-close-2", "C12", 2, 3, "consumer.Close racing its own Get/Commit; other consumer unaffected", bClose(2), defaultPolicy)
	reg("B-close-3", "C12", 2, 3, "consumer.Close racing Diff on the same consumer; Diff and Get on another", bClose(3), defaultPolicy)
	for _, v := range []struct {
		name   string
		n      int
		cd     time.Duration
		closes bool
		fixed  bool
		q, t   int
	}{
		{"B-reclaim-1", 1, 10 * ms, false, false, 2, 3},
		{"B-reclaim-1-cd0", 1, 0, false, false, 2, 3},
		{"B-reclaim-2", 2, 10 * ms, false, false, 2, 3},
		{"B-reclaim-2-close", 2, 10 * ms, true, false, 2, 3},
		{"B-reclaim-fixed", 0, 10 * ms, false, true, 2, 3},
	} {
		policy := defaultPolicy
		if v.fixed {
			policy = fixedPolicy(2, 1)
		}
		vrt.Register(&vrt.Scenario{Name: v.name, Props: []string{"C04", "C11:race", "C12:goroutine-leak,close-"}, Quick: v.q, Thorough: v.t,
			Desc: "consumers read and commit everything, then the program goes quiet: Size must return to the slowest backlog with no further operation",
			Opts: vrt.Options{Delay: true}, Run: bReclaim(v.n, v.cd, v.closes, v.fixed), Check: reclaimCheck(policy)})
	}
}

// B-range: P: Put(1,2); Put(3) ∥ C: Buffer.Range(fn) then a Get on the same consumer.
// fn is one of: always true, false at index i, panic at index i (i in {0,1}) - an enumerated choice.
func bRange() {
	h := newBufH(0, nil)
	c := h.newC()
	variant := vrt.Choose(5, 0)
	vrt.Log("variant", variant)
	pre := vrt.Choose(2, 0) // 1: the consumer already holds an uncommitted read of value 0 when Range starts
	if pre == 1 {
		h.b.Put(nil, 0)
		v, _ := c.c.Get(nil)
		vrt.Log("pre-read", tok(v))
	}
	var wg sync.WaitGroup
	wg.Add(2)
	single := vrt.Choose(2, 0) == 1 // the producer puts exactly one value and then stays silent
	vrt.Log("producer", single)
	go func() {
		defer wg.Done()
		if single {
			vrt.Log("putcall", 1)
			h.b.Put(nil, 1)
			vrt.Log("putret", 1)
			return
		}
		vrt.Log("putcall", 2)
		h.b.Put(nil, 1, 2)
		vrt.Log("putret", 2)
		vrt.Log("putcall", 3)
		h.b.Put(nil, 3)
		vrt.Log("putret", 3)
	}()
	go func() {
		defer wg.Done()
		func() {
			defer func() {
				if r := recover(); r != nil {
					vrt.Log("range-ret", "panic")
				}
			}()
			vrt.Log("range-call")
			err := h.b.Range(nil, c.c, func(index int, value interface{}) bool {
				vrt.Log("range-fn", index, tok(value))
				switch {
				case variant == 1 && index == 0, variant == 2 && index == 1:
					return false
				case variant == 3 && index == 0, variant == 4 && index == 1:
					panic("scripted panic")
				}
				vrt.Log("range-fn-end", index)
				return true
			})
			vrt.Log("range-ret", "err", errStr(err))
		}()
	}()
	wg.Wait()
	// everything is put by now; the next read shows where the consumer stands
	if d, ok := h.b.Diff(c.c); ok && d > 0 {
		v, err := c.c.Get(nil)
		vrt.Log("next-get", tok(v), errStr(err))
		c.c.Rollback()
	} else {
		vrt.Log("next-get", 0, "nothing left")
	}
	h.b.Close()
}

func init() {
	vrt.Register(&vrt.Scenario{Name: "B-range", Props: []string{"C02", "C11:race", "C12:goroutine-leak"}, Quick: 2, Thorough: 3,
		Desc: "Buffer.Range on a dedicated consumer racing two Puts; callback always true / false at i / panicking at i; then a Get on the same consumer",
		Opts: vrt.Options{Delay: true}, Run: bRange, Check: bufRangeCheck})
}

// B-shared-block: one consumer shared by two goroutines where a Get is BLOCKED (asynchronous
// path) with an uncommitted read while the other goroutine commits / rolls back and a producer
// eventually puts: T1: G G G ∥ T2: Commit; Rollback ∥ P: Put(2,3)
func bSharedBlock() {
	h := newBufH(0, nil)
	c := h.newC()
	h.put(0, nil, 1)
	var wg sync.WaitGroup
	wg.Add(3)
	go func() {
		defer wg.Done()
		c.get(0, nil)
		c.get(0, nil)
		c.get(0, nil)
	}()
	go func() {
		defer wg.Done()
		c.commit()
		c.rollback()
	}()
	go func() {
		defer wg.Done()
		h.put(0, nil, 2, 3)
	}()
	wg.Wait()
	h.diff(c)
	h.finish(c)
}

func init() {
	vrt.Register(&vrt.Scenario{Name: "B-shared-block", Props: []string{"C01", "C02", "C11:race", "C12:goroutine-leak,close-"}, Quick: 2, Thorough: 3,
		Desc: "one consumer shared by two goroutines: a Get blocked on the empty buffer with an uncommitted read vs Commit/Rollback from the other goroutine vs a late Put",
		Opts: vrt.Options{Delay: true}, Run: bSharedBlock, Check: bufferCheck(defaultPolicy)})
}

// B-evict-commit: FixedBufferCleaner(2,1); the lagging consumer COMMITS a read that a forced trim
// has already passed and then reads on: every later Get must fail, never skip.
func bEvictCommit() {
	h := newBufH(0, FixedBufferCleaner(2, 1, nil))
	l, f := h.newC(), h.newC()
	var wg sync.WaitGroup
	wg.Add(3)
	go func() {
		defer wg.Done()
		h.put(0, nil, 1)
		h.put(0, nil, 2)
		h.put(0, nil, 3)
	}()
	go func() {
		defer wg.Done()
		l.get(0, nil)
		l.commit()
		l.get(0, nil)
		l.commit()
		l.get(0, nil)
	}()
	go func() {
		defer wg.Done()
		for i := 0; i < 3; i++ {
			f.get(0, nil)
			f.commit()
		}
	}()
	wg.Wait()
	h.diff(l)
	h.finish(l, f)
}

func init() {
	vrt.Register(&vrt.Scenario{Name: "B-evict-commit", Props: []string{"C01", "C03", "C11:race", "C12:goroutine-leak,close-"}, Quick: 2, Thorough: 3,
		Desc: "FixedBufferCleaner(2,1): a lagging consumer commits reads that a forced trim has passed, then reads on",
		Opts: vrt.Options{Delay: true}, Run: bEvictCommit, Check: bufferCheck(fixedPolicy(2, 1))})
}

// B-wake-after-commit: a Get blocks at the end of a buffer that still physically holds an
// already committed value; the cleaner may shift that value out while the Get is blocked; then
// one value is put: the Get must return it.
func bWakeAfterCommit(cooldown time.Duration) func() {
	return func() {
		h := newBufH(cooldown, nil)
		c := h.newC()
		h.put(0, nil, 1)
		c.get(0, nil)
		c.commit()
		var wg sync.WaitGroup
		wg.Add(2)
		go func() {
			defer wg.Done()
			if _, ok := c.get(0, nil); ok {
				c.commit()
			}
		}()
		go func() {
			defer wg.Done()
			h.put(0, nil, 2)
		}()
		wg.Wait()
		h.finish(c)
	}
}

func init() {
	for _, v := range []struct {
		name string
		cd   time.Duration
	}{{"B-wake-after-commit", 0}, {"B-wake-after-commit-cd", 10 * time.Millisecond}} {
		vrt.Register(&vrt.Scenario{Name: v.name, Props: []string{"C05", "C11:race", "C12:goroutine-leak,close-"}, Quick: 2, Thorough: 3,
			Desc: "Get blocked behind an already committed value that the cleaner may evict meanwhile, then one Put",
			Opts: vrt.Options{Delay: true}, Run: bWakeAfterCommit(v.cd), Check: bufferCheckSig(defaultPolicy, "lost-wakeup")})
	}
}

// B-diff: Diff polled by a second goroutine while the consumer's owner reads, commits and rolls back.
func bDiff() {
	h := newBufH(0, nil)
	c := h.newC()
	h.put(0, nil, 1, 2, 3)
	var wg sync.WaitGroup
	wg.Add(2)
	go func() {
		defer wg.Done()
		c.get(0, nil)
		c.commit()
		c.get(0, nil)
		c.rollback()
	}()
	go func() {
		defer wg.Done()
		h.diff(c)
		h.diff(c)
		h.diff(c)
	}()
	wg.Wait()
	h.finish(c)
}

func init() {
	vrt.Register(&vrt.Scenario{Name: "B-diff", Props: []string{"C03", "C11:race", "C12:goroutine-leak,close-"}, Quick: 2, Thorough: 3,
		Desc: "Diff polled from a second goroutine while the owner of the consumer reads, commits and rolls back",
		Opts: vrt.Options{Delay: true}, Run: bDiff, Check: bufferCheck(defaultPolicy)})
}

// B-reclaim-parked: as B-reclaim, but a second, caught-up consumer is parked in a blocked Get
// (its waiter goroutine sleeps on the same cond as the cleaner) when the program goes quiet.
func bReclaimParked(cooldown time.Duration) func() {
	return func() {
		h := newBufH(cooldown, nil)
		c1, c2 := h.newC(), h.newC()
		ctx, cancel := context.WithCancel(context.Background())
		var wg, pwg sync.WaitGroup
		wg.Add(2)
		pwg.Add(1)
		go func() {
			defer wg.Done()
			h.put(0, nil, 1, 2)
		}()
		go func() {
			defer wg.Done()
			for k := 0; k < 2; k++ {
				c1.get(0, nil)
				c1.commit()
			}
		}()
		go func() {
			defer pwg.Done()
			for k := 0; k < 2; k++ {
				c2.get(0, nil)
				c2.commit()
			}
			c2.get(1, ctx) // parked: nothing more is ever put
		}()
		wg.Wait()
		vrt.Log("quiet", int(vrt.Elapsed()), 0)
		for h.b.Size() > 0 {
			vrt.Yield()
		}
		vrt.Log("reclaimed", int(vrt.Elapsed()), h.b.Size(), int(cooldown))
		cancelCtx(1, cancel)
		pwg.Wait()
		h.finish(c1, c2)
	}
}

// B-reclaim-parked3: three consumers and one value. B reads, commits and parks in a blocked Get (its
// reader then waits on the same cond as the cleaner); A and C read and commit at any later point.
// Every commit must reach the cleaner, whoever else is waiting on the cond and in whatever order.
func bReclaimParked3(cooldown time.Duration) func() {
	return func() {
		h := newBufH(cooldown, nil)
		cb, ca, cc := h.newC(), h.newC(), h.newC()
		ctx, cancel := context.WithCancel(context.Background())
		var wg, pwg sync.WaitGroup
		h.put(0, nil, 1)
		pwg.Add(1)
		go func() {
			defer pwg.Done()
			cb.get(0, nil)
			cb.commit()
			cb.get(1, ctx) // parked: nothing more is ever put
		}()
		for _, c := range []bufC{ca, cc} {
			wg.Add(1)
			go func() {
				defer wg.Done()
				c.get(0, nil)
				c.commit()
			}()
		}
		wg.Wait()
		vrt.Log("quiet", int(vrt.Elapsed()), 0)
		for h.b.Size() > 0 {
			vrt.Yield()
		}
		vrt.Log("reclaimed", int(vrt.Elapsed()), h.b.Size(), int(cooldown))
		cancelCtx(1, cancel)
		pwg.Wait()
		h.finish(cb, ca, cc)
	}
}

// B-reclaim-busy: the workload never goes quiet for a whole cooldown (an operation every 4ms of
// virtual time, cooldown 10ms): consumed prefixes must still be freed while it goes on.
func bReclaimBusy() {
	h := newBufH(10*time.Millisecond, nil)
	c := h.newC()
	for i := 1; i <= 12; i++ {
		h.put(0, nil, i)
		c.get(0, nil)
		c.commit()
		time.Sleep(4 * time.Millisecond)
		vrt.Log("busy-size", i, h.b.Size(), int(vrt.Elapsed()))
	}
	h.finish(c)
}

func init() {
	for _, cd := range []time.Duration{0, 10 * time.Millisecond} {
		name := "B-reclaim-parked"
		if cd == 0 {
			name += "-cd0"
		}
		vrt.Register(&vrt.Scenario{Name: name, Props: []string{"C04", "C11:race", "C12:goroutine-leak,close-"}, Quick: 2, Thorough: 3,
			Desc: "as B-reclaim with a second, caught-up consumer parked in a blocked Get on the same cond when the program goes quiet",
			Opts: vrt.Options{Delay: true}, Run: bReclaimParked(cd), Check: reclaimCheck(defaultPolicy)})
	}
	for _, cd := range []time.Duration{0, 10 * time.Millisecond} {
		name, q, t := "B-reclaim-parked3", 1, 2
		if cd == 0 {
			name, q, t = name+"-cd0", 2, 3
		}
		vrt.Register(&vrt.Scenario{Name: name, Props: []string{"C04", "C11:race", "C12:goroutine-leak,close-"}, Quick: q, Thorough: t,
			Desc: "three consumers, one value: one consumer commits and parks in a blocked Get (its reader waits on the cleaner's cond), the two others commit later in any order; then quiet",
			Opts: vrt.Options{Delay: true}, Run: bReclaimParked3(cd), Check: reclaimCheck(defaultPolicy)})
	}
	vrt.Register(&vrt.Scenario{Name: "B-reclaim-busy", Props: []string{"C04", "C12:goroutine-leak,close-"}, Quick: 1, Thorough: 2,
		Desc: "a consumer that keeps up with one Put every 4ms of virtual time (cooldown 10ms): the buffer must be trimmed while the traffic goes on",
		Opts: vrt.Options{Delay: true}, Run: bReclaimBusy, Check: reclaimCheck(defaultPolicy)})
}

// B-close-slow (added after seed C12-r7a): Buffer.Close issued by another goroutine while a
// user-supplied Cleaner callback is running (the cleanup goroutine holds the buffer's lock between
// WaitCond's context check and its cond.Wait, and calls the Cleaner in between). The callback of
// the k-th cleaner run (k enumerated) starts the closing goroutine and yields, so every placement
// of Close's steps inside the callback is within reach at 0 deviations.
func bCloseSlow() {
	k := 1 + vrt.Choose(3, 0)
	var (
		h       = bufH{new(Buffer)} // assigned before the callback can run (it is read by the closing goroutine)
		mu      sync.Mutex
		calls   int
		spawned bool
		closed  = make(chan struct{})
	)
	cl := func(size int, offsets []int) int {
		mu.Lock()
		calls++
		start := calls == k
		if start {
			spawned = true
		}
		mu.Unlock()
		if start {
			go func() {
				defer close(closed)
				h.closeB()
			}()
			vrt.Yield()
			vrt.Yield()
		}
		return DefaultCleaner(size, offsets)
	}
	cfg := h.b.CleanerConfig()
	cfg.Cooldown = 0
	cfg.Cleaner = cl
	if err := h.b.SetCleanerConfig(cfg); err != nil {
		panic(err)
	}
	c := h.newC()
	h.put(0, nil, 1, 2)
	if _, ok := c.get(0, nil); ok {
		c.commit()
	}
	h.put(0, nil, 3)
	if _, ok := c.get(0, nil); ok {
		c.commit()
	}
	h.closeB()
	mu.Lock()
	s := spawned
	mu.Unlock()
	if s {
		<-closed
	}
	h.finish(c)
}

func init() {
	vrt.Register(&vrt.Scenario{Name: "B-close-slow", Props: []string{"C12", "C11:race"}, Quick: 2, Thorough: 3,
		Desc: "Buffer.Close from another goroutine while a custom Cleaner callback (k-th run, k in 1..3) is in progress, then Close again; no goroutine may be left",
		Opts: vrt.Options{Delay: true}, Run: bCloseSlow, Check: bufferCheck(defaultPolicy)})
}
