package bigbuff

import (
	"context"
	"fmt"
	"sync"
	"time"

	"github.com/joeycumines/go-bigbuff/internal/v/vrt"
)

// C13 — Channel drivers. Operations are logged like the Buffer's (c:<op> / r:<op>).

type chH struct {
	c   *Channel
	src chan int
}

func newChH(ctx context.Context, ctxid int, prefill ...int) chH {
	n := 8
	if len(prefill) > n {
		n = len(prefill)
	}
	src := make(chan int, n)
	for _, v := range prefill {
		src <- v
	}
	c, err := NewChannel(ctx, time.Millisecond, src)
	if err != nil {
		panic(err)
	}
	id := int(vrt.Stamp())
	args := []any{id, -1, ctxid}
	for _, v := range prefill {
		args = append(args, v)
	}
	vrt.Log("c:Init", args...)
	vrt.Log("r:Init", id)
	return chH{c, src}
}

func (h chH) get(ctxid int, ctx context.Context) (int, bool) {
	id := int(vrt.Stamp())
	vrt.Log("c:Get", id, -1, ctxid)
	v, err := h.c.Get(ctx)
	t := -1
	if err == nil {
		t = tok(v)
	}
	vrt.Log("r:Get", id, t, errStr(err))
	return t, err == nil
}

func (h chH) commit() bool {
	id := int(vrt.Stamp())
	vrt.Log("c:Commit", id, -1)
	err := h.c.Commit()
	vrt.Log("r:Commit", id, errStr(err))
	return err == nil
}

func (h chH) rollback() bool {
	id := int(vrt.Stamp())
	vrt.Log("c:Rollback", id, -1)
	err := h.c.Rollback()
	vrt.Log("r:Rollback", id, errStr(err))
	return err == nil
}

func (h chH) buffer() []int {
	id := int(vrt.Stamp())
	vrt.Log("c:Buffer", id, -1)
	b := h.c.Buffer()
	out := make([]int, len(b))
	for i, v := range b {
		out[i] = tok(v)
	}
	vrt.Log("r:Buffer", id, out)
	return out
}

func (h chH) close() bool {
	id := int(vrt.Stamp())
	vrt.Log("c:Close", id, -1)
	err := h.c.Close()
	vrt.Log("r:Close", id, errStr(err))
	return err == nil
}

func (h chH) send(v int) {
	id := int(vrt.Stamp())
	vrt.Log("c:Send", id, -1, v)
	h.src <- v
	vrt.Log("r:Send", id)
}

// finish: close, check Done, then show what is left in the source and in the pending buffer.
func (h chH) finish() {
	h.buffer()
	h.close()
	select {
	case <-h.c.Done():
		vrt.Log("done-closed", true)
	default:
		vrt.Log("done-closed", false)
	}
	h.get(0, nil)
	h.commit()
	h.close()
	h.buffer()
	id := int(vrt.Stamp())
	vrt.Log("c:Drain", id, -1)
	var left []int
	for {
		select {
		case v, ok := <-h.src:
			if ok {
				left = append(left, v)
				continue
			}
		default:
		}
		break
	}
	vrt.Log("r:Drain", id, left)
}

// H-seq: every sequence of operations on a Channel over a source pre-filled with 4 values.
func chSeq(length int) func() { return chSeqN(length, 7) }

// chSeqN restricts the alphabet to its first n operations (Get, Get(cancelled), Commit, Rollback,
// Buffer | Close, cancel): the transactional core can then be enumerated to a greater depth.
func chSeqN(length, nops int) func() {
	return func() {
		ctx, cancel := context.WithCancel(context.Background())
		defer cancel()
		h := newChH(ctx, 1, 1, 2, 3, 4)
		cctx, ccancel := context.WithCancel(context.Background())
		ccancel()
		cid := int(vrt.Stamp())
		vrt.Log("c:Cancel", cid, -1, 2)
		vrt.Log("r:Cancel", cid)
		avail, replay, closed := 4, 0, false
		taken := 0
		for i := 0; i < length; i++ {
			switch vrt.Choose(nops, 0) {
			case 0:
				if !closed && avail == 0 && replay == 0 {
					continue // would poll forever: outside a sequential program
				}
				if _, ok := h.get(0, nil); ok {
					if replay > 0 {
						replay--
					} else {
						avail--
						taken++
					}
				}
			case 1:
				h.get(2, cctx) // already cancelled context
			case 2:
				if h.commit() {
					taken = replay
				}
			case 3:
				if h.rollback() {
					replay = taken
				}
			case 4:
				h.buffer()
			case 5:
				h.close()
				closed = true
			case 6:
				id := int(vrt.Stamp())
				vrt.Log("c:Cancel", id, -1, 1)
				cancel()
				vrt.Log("r:Cancel", id)
				// closing by context is asynchronous (a goroutine calls Close): let it settle
				for k := 0; k < 3; k++ {
					vrt.Yield()
				}
				closed = true
			}
		}
		h.finish()
	}
}

// H-conc: T1: Get Get Commit ∥ T2: Rollback; Get ∥ T3: Buffer / Close.
func chConc(withClose bool) func() {
	return func() {
		h := newChH(nil, 0, 1, 2, 3)
		var wg sync.WaitGroup
		wg.Add(3)
		go func() {
			defer wg.Done()
			h.get(0, nil)
			h.get(0, nil)
			h.commit()
		}()
		go func() {
			defer wg.Done()
			h.rollback()
			h.get(0, nil)
		}()
		go func() {
			defer wg.Done()
			h.buffer()
			if withClose {
				h.close()
			}
		}()
		wg.Wait()
		h.finish()
	}
}

// H-poll: Get blocked on an empty source (poll ticker = virtual-time events) vs a producer,
// optionally with the source being closed, vs Close.
func chPoll(closeSrc bool) func() {
	return func() {
		h := newChH(nil, 0)
		var wg sync.WaitGroup
		wg.Add(2)
		go func() {
			defer wg.Done()
			if _, ok := h.get(0, nil); ok {
				h.commit()
			}
			h.get(0, nil) // blocked until Close when nothing more comes
		}()
		go func() {
			defer wg.Done()
			h.send(1)
			if closeSrc {
				id := int(vrt.Stamp())
				vrt.Log("c:CloseSrc", id, -1)
				close(h.src)
				vrt.Log("r:CloseSrc", id)
			}
			// give the consumer time to poll, then close
			time.Sleep(3 * time.Millisecond)
			h.close()
		}()
		wg.Wait()
		h.finish()
	}
}

func init() {
	for _, l := range []struct{ n, q, t int }{{5, 0, 1}, {6, -1, 0}, {7, -1, 0}} {
		vrt.Register(&vrt.Scenario{Name: fmt.Sprintf("H-seq%d", l.n), Props: []string{"C13", "C12:goroutine-leak,close-"}, Quick: l.q, Thorough: l.t,
			Desc: fmt.Sprintf("every sequence of %d operations over {Get, Get(cancelled ctx), Commit, Rollback, Buffer, Close, cancel of the Channel's context} on a Channel whose source holds 4 values", l.n),
			Opts: vrt.Options{Delay: true}, Run: chSeq(l.n), Check: channelCheck})
	}
	vrt.Register(&vrt.Scenario{Name: "H-txn7", Props: []string{"C13"}, Quick: 0, Thorough: 1,
		Desc: "every sequence of 7 operations over {Get, Get(cancelled ctx), Commit, Rollback, Buffer} (rollback, partial re-read, rollback again, commit ...)",
		Opts: vrt.Options{Delay: true}, Run: chSeqN(7, 5), Check: channelCheck})
	vrt.Register(&vrt.Scenario{Name: "H-conc", Props: []string{"C13", "C11:race", "C12:goroutine-leak,close-"}, Quick: 3, Thorough: 5,
		Desc: "T1: Get Get Commit, T2: Rollback Get, T3: Buffer - concurrently on one Channel", Opts: vrt.Options{Delay: true}, Run: chConc(false), Check: channelCheck})
	vrt.Register(&vrt.Scenario{Name: "H-conc-pu", Props: []string{"C13"}, Quick: 3, Thorough: 4,
		Desc: "H-conc with an extra scheduling point right after every Unlock: what a call does after leaving its critical section (e.g. copying a snapshot) is interleaved with the other calls", Opts: vrt.Options{Delay: true, PostUnlock: true}, Run: chConc(false), Check: channelCheck})
	vrt.Register(&vrt.Scenario{Name: "H-conc-close", Props: []string{"C13", "C11:race", "C12:goroutine-leak,close-"}, Quick: 3, Thorough: 5,
		Desc: "same with a concurrent Close", Opts: vrt.Options{Delay: true}, Run: chConc(true), Check: channelCheck})
	vrt.Register(&vrt.Scenario{Name: "H-poll", Props: []string{"C13", "C11:race", "C12:goroutine-leak,close-"}, Quick: 2, Thorough: 3,
		Desc: "Get polling an empty source (ticker as virtual-time events) vs a producer and a later Close", Opts: vrt.Options{Delay: true, MaxTimerFires: 12}, Run: chPoll(false), Check: channelCheck})
	vrt.Register(&vrt.Scenario{Name: "H-poll-closedsrc", Props: []string{"C13", "C11:race", "C12:goroutine-leak,close-"}, Quick: 2, Thorough: 3,
		Desc: "same, the source channel is closed after one value: Get must never produce a zero value", Opts: vrt.Options{Delay: true, MaxTimerFires: 12}, Run: chPoll(true), Check: channelCheck})
}

// H-done: once Done is closed nothing more is taken from the source. T1: two Gets; T2: Close;
// T3 waits for Done and then looks at the source; at the end the source must still hold as much.
func chDone() {
	h := newChH(nil, 0, 1, 2, 3)
	var wg sync.WaitGroup
	wg.Add(3)
	go func() {
		defer wg.Done()
		h.get(0, nil)
		h.get(0, nil)
	}()
	go func() {
		defer wg.Done()
		h.close()
	}()
	go func() {
		defer wg.Done()
		<-h.c.Done()
		vrt.Log("left-at-done", len(h.src))
	}()
	wg.Wait()
	vrt.Log("left-at-end", len(h.src))
	h.finish()
}

func init() {
	vrt.Register(&vrt.Scenario{Name: "H-done", Props: []string{"C13", "C11:race", "C12:goroutine-leak,close-"}, Quick: 3, Thorough: 5,
		Desc: "two Gets racing Close while a third thread waits for Done and then inspects the source: nothing may be taken once Done is closed",
		Opts: vrt.Options{Delay: true}, Run: chDone, Check: channelCheck})
}

// H-big: transactions much longer than the small sequences: a values taken, Rollback, b of them
// re-read, Commit (in the middle of the replay), Buffer, the rest re-read, Commit, two more values -
// for a in {17, 20, 33} and b in {1, 2, a-1}: beyond any small-capacity special case of the pending
// buffer (growth, re-slicing, shrinking).
func chBig() {
	var pre []int
	for i := 1; i <= 36; i++ {
		pre = append(pre, i)
	}
	h := newChH(nil, 0, pre...)
	a := []int{17, 20, 33}[vrt.Choose(3, 0)]
	b := []int{1, 2, a - 1}[vrt.Choose(3, 0)]
	for i := 0; i < a; i++ {
		h.get(0, nil)
	}
	h.buffer()
	h.rollback()
	for i := 0; i < b; i++ {
		h.get(0, nil)
	}
	h.commit()
	h.buffer()
	for i := 0; i < a-b; i++ {
		h.get(0, nil)
	}
	h.rollback()
	h.get(0, nil)
	h.commit()
	h.buffer()
	h.get(0, nil)
	h.get(0, nil)
	h.finish()
}

func init() {
	vrt.Register(&vrt.Scenario{Name: "H-big", Props: []string{"C13"}, Quick: 0, Thorough: 1,
		Desc: "long transactions (17-33 values taken, rollback, partial re-read, commit in the middle of the replay, rollback again, ...) against the model",
		Opts: vrt.Options{Delay: true}, Run: chBig, Check: channelCheck})
}
