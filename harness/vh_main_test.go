package bigbuff

import (
	"os"
	"testing"

	"github.com/joeycumines/go-bigbuff/internal/v/vrt"
)

func TestMain(m *testing.M) {
	os.Exit(vrt.WorkerMain())
}
