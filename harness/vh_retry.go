package bigbuff

import (
	"context"
	"errors"
	"fmt"
	"time"

	"github.com/joeycumines/go-bigbuff/internal/v/vrt"
)

// C18 — ExponentialRetry; C20 — LinearAttempt.

var errPlain = errors.New("plain failure")

func retryRates() time.Duration {
	return []time.Duration{-1, 0, time.Millisecond, 7 * time.Millisecond}[vrt.Choose(4, 0)]
}

// retryScenario: outcomes are chosen per call; the context is cancelled never, before the first
// call, inside call i (by the operation itself) or by a concurrent thread (placed by the scheduler).
func retryScenario(maxCalls int) func() {
	return func() {
		rate := retryRates()
		vrt.Log("rate", int(rate))
		ctx, cancel := context.WithCancel(context.Background())
		defer cancel()
		mode := vrt.Choose(4, 0) // 0 never, 1 before the first call, 2 inside a call, 3 concurrent thread
		vrt.Log("mode", mode)
		if mode == 1 {
			cancel()
			vrt.Log("cancelled")
		}
		calls := 0
		fn := ExponentialRetry(ctx, rate, func() (interface{}, error) {
			calls++
			k := calls
			vrt.Log("op-call", k, int(vrt.Elapsed()))
			if mode == 2 && vrt.Choose(2, 0) == 1 {
				cancel()
				vrt.Log("cancelled")
			}
			o := 3
			if k < maxCalls {
				o = vrt.Choose(5, 0)
			}
			switch o {
			case 4:
				// a PLAIN error that merely wraps a fatal one further down is not "an error wrapped by
				// FatalError": the loop must go on
				vrt.Log("op-ret", k, "error")
				return fmt.Sprintf("r%d", k), fmt.Errorf("layer: %w", FatalError(errPlain))
			case 0:
				vrt.Log("op-ret", k, "error")
				return fmt.Sprintf("r%d", k), errPlain
			case 1:
				vrt.Log("op-ret", k, "fatal")
				return fmt.Sprintf("r%d", k), FatalError(errPlain)
			case 2:
				vrt.Log("op-ret", k, "fatal2")
				return fmt.Sprintf("r%d", k), FatalError(FatalError(errPlain))
			}
			vrt.Log("op-ret", k, "success")
			return fmt.Sprintf("r%d", k), nil
		})
		done := make(chan struct{})
		if mode == 3 {
			go func() {
				vrt.Log("cancel-call")
				cancel()
				vrt.Log("cancelled", int(vrt.Elapsed()))
				close(done)
			}()
		} else {
			close(done)
		}
		r, err := fn()
		rs, _ := outcomeStr(r, nil)
		es := "<nil>"
		if err != nil {
			es = err.Error()
			if isFatalError(err) {
				es = "STILL-FATAL " + es
			}
		}
		vrt.Log("ret", rs, es, int(vrt.Elapsed()))
		<-done
	}
}

// retryTwice: the function returned by ExponentialRetry is invoked twice; the back-off of the
// second invocation starts again at 2^1.
func retryTwice() {
	calls := 0
	script := [][]int{{vrt.Choose(3, 0), 0}, {1 + vrt.Choose(2, 0), 0}} // number of plain errors before the end, per invocation
	fatalEnd := vrt.Choose(2, 0) == 1                                   // the first invocation ends with a fatal error instead of a success
	inv := 0
	fn := ExponentialRetry(nil, time.Millisecond, func() (interface{}, error) {
		calls++
		vrt.Log("op-call", calls, int(vrt.Elapsed()))
		if script[inv][1] < script[inv][0] {
			script[inv][1]++
			vrt.Log("op-ret", calls, "error")
			return nil, errPlain
		}
		if inv == 0 && fatalEnd {
			vrt.Log("op-ret", calls, "fatal")
			return fmt.Sprintf("r%d", calls), FatalError(errPlain)
		}
		vrt.Log("op-ret", calls, "success")
		return fmt.Sprintf("r%d", calls), nil
	})
	for inv = 0; inv < 2; inv++ {
		calls = 0
		vrt.Log("invoke", inv)
		r, err := fn()
		rs, _ := outcomeStr(r, nil)
		es := "<nil>"
		if err != nil {
			es = err.Error()
		}
		vrt.Log("rate", int(time.Millisecond))
		vrt.Log("mode", 0)
		vrt.Log("ret", rs, es, int(vrt.Elapsed()))
	}
}

// retryLong: 40 plain errors, then success: the back-off range is capped at 2^31.
func retryLong() {
	calls := 0
	fn := ExponentialRetry(nil, time.Nanosecond, func() (interface{}, error) {
		calls++
		vrt.Log("op-call", calls, int(vrt.Elapsed()))
		if calls <= 40 {
			vrt.Log("op-ret", calls, "error")
			return nil, errPlain
		}
		vrt.Log("op-ret", calls, "success")
		return "ok", nil
	})
	r, err := fn()
	rs, es := outcomeStr(r, err)
	if err == nil {
		es = "<nil>"
	}
	vrt.Log("rate", 1)
	vrt.Log("mode", 0)
	vrt.Log("ret", rs, es, int(vrt.Elapsed()))
}

// retryCalc: the delay calculation for every retry count 0..40 and four rates, with the random
// answer enumerated over the boundary alphabet.
func retryCalc() {
	c := uint32(vrt.Choose(41, 0))
	rate := []time.Duration{time.Nanosecond, time.Millisecond, 7 * time.Millisecond, 300 * time.Millisecond}[vrt.Choose(4, 0)]
	d := calcExponentialRetry(rate, c)
	vrt.Log("calc", int(c), int(rate), int(d))
}

// ---- LinearAttempt ------------------------------------------------------------------------------

// lateDoneCtx reports cancellation through Err() but its Done channel never fires (a wrapping
// context of the kind the repository's own example uses).
type lateDoneCtx struct{ context.Context }

func (lateDoneCtx) Done() <-chan struct{} { return nil }

// attemptScenario: count in 1..3, receiver prompt / slow / absent, cancellation by a concurrent
// thread at any point (or before the call, or never).
func attemptScenario() {
	count := 1 + vrt.Choose(3, 0)
	pace := vrt.Choose(3, 0) // 0 prompt, 1 slow (sleeps 2.5 ticks between receives), 2 absent
	// 0 never, 1 before the call, 2 concurrent, 3 concurrent with a context whose Done never fires,
	// 4 before the call with such a context, 5 a deadline (18ms) that does not fall on a tick
	cmode := vrt.Choose(6, 0)
	rate := 10 * time.Millisecond
	vrt.Log("config", count, pace, cmode)
	ctx, cancel := context.WithCancel(context.Background())
	defer cancel()
	if cmode == 1 || cmode == 4 {
		cancel()
		vrt.Log("cancelled", int(vrt.Elapsed()))
	}
	if cmode == 3 || cmode == 4 {
		ctx = lateDoneCtx{ctx} // cancellation is visible through Err() only
	}
	if cmode == 5 {
		var c2 context.CancelFunc
		ctx, c2 = context.WithTimeout(ctx, 18*time.Millisecond)
		defer c2()
	}
	c := LinearAttempt(ctx, rate, count)
	vrt.Log("returned", len(c))
	done := make(chan struct{})
	if cmode == 2 || cmode == 3 {
		go func() {
			// the canceller may also let some virtual time pass first
			if vrt.Choose(2, 0) == 1 {
				time.Sleep(15 * time.Millisecond)
			}
			vrt.Log("cancel-call", int(vrt.Elapsed()))
			cancel()
			vrt.Log("cancelled", int(vrt.Elapsed()))
			if !vrt.RaceBuild {
				// closure must follow without another tick: poll the model's view of the channel
				for !vrt.IsClosed(c) {
					vrt.Yield()
				}
				vrt.Log("closed-model", int(vrt.Elapsed()))
			}
			close(done)
		}()
	} else {
		close(done)
	}
	if pace == 2 {
		// absent receiver: without cancellation the producer legitimately waits for ever, so
		// cancel at the end and then look at the channel
		time.Sleep(35 * time.Millisecond)
		vrt.Log("buffered", len(c))
		<-done
		if cmode != 1 && cmode != 4 {
			vrt.Log("cancel-call", int(vrt.Elapsed()))
			cancel()
			vrt.Log("cancelled", int(vrt.Elapsed()))
			if !vrt.RaceBuild {
				for !vrt.IsClosed(c) {
					vrt.Yield()
				}
				vrt.Log("closed-model", int(vrt.Elapsed()))
			}
		}
	}
	for {
		if pace == 1 {
			time.Sleep(25 * time.Millisecond)
		}
		if n := len(c); n > 1 {
			vrt.Log("over-buffered", n)
		}
		t, ok := <-c
		if !ok {
			// closed: by then either count values were delivered or the context is cancelled
			vrt.Log("closed", int(vrt.Elapsed()), ctx.Err() != nil)
			break
		}
		vrt.Log("recv", int(t.UnixNano()), int(vrt.Elapsed()))
	}
	<-done
}

func init() {
	vrt.Register(&vrt.Scenario{Name: "R-retry", Props: []string{"C18", "C11:race", "C12:goroutine-leak"}, Quick: 1, Thorough: 2,
		Desc: "ExponentialRetry: outcome sequences of <=4 calls over {error, fatal, nested fatal, success} x rate {-1,0,1ms,7ms} x cancellation {never, before, inside call i, concurrent thread} x random answers from the boundary alphabet",
		Opts: vrt.Options{RandAll: true}, Run: retryScenario(4), Check: retryCheck})
	vrt.Register(&vrt.Scenario{Name: "R-retry-long", Props: []string{"C18"}, Quick: 0, Thorough: 1,
		Desc: "40 plain errors then success: requested random range capped at 2^31", Run: retryLong, Check: retryCheck})
	vrt.Register(&vrt.Scenario{Name: "R-retry-twice", Props: []string{"C18"}, Quick: 1, Thorough: 2,
		Desc: "the returned function invoked twice (0-2 plain errors, then success or - first invocation - a fatal error): every invocation's back-off starts at 2^1", Opts: vrt.Options{RandAll: true}, Run: retryTwice, Check: retryTwiceCheck})
	vrt.Register(&vrt.Scenario{Name: "R-calc", Props: []string{"C18"}, Quick: 1, Thorough: 1,
		Desc: "calcExponentialRetry for every c in 0..40 x 4 rates x boundary random answers", Opts: vrt.Options{RandAll: true}, Run: retryCalc, Check: retryCalcCheck})
	vrt.Register(&vrt.Scenario{Name: "A-attempt", Props: []string{"C20", "C11:race", "C12:goroutine-leak"}, Quick: 3, Thorough: 4,
		Desc: "LinearAttempt: count 1..3 x receiver prompt/slow/absent x cancellation never/before/concurrent (placed by the scheduler, optionally after 15ms), ticks as virtual-time events",
		Opts: vrt.Options{MaxTimerFires: 16}, Run: attemptScenario, Check: attemptCheck})
}
