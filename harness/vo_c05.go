package bigbuff

import (
	"fmt"

	"github.com/joeycumines/go-bigbuff/internal/v/vrt"
)

// generic end-of-run clauses shared by most oracles
func baseCheck(r *vrt.Result, wantTermination, noPanic, noLeak bool) string {
	if r.Status == vrt.StSteps {
		return "step-horizon: execution exceeded the step horizon"
	}
	if wantTermination && r.Status != vrt.StOK {
		return fmt.Sprintf("%s: a call never returned: %v", r.Status, r.Blocked)
	}
	if noPanic && len(r.Panics) > 0 {
		return fmt.Sprintf("panic: %s in T%s", r.Panics[0].Msg, r.Panics[0].Thread)
	}
	if noLeak && r.Status == vrt.StOK && len(r.Leaked) > 0 {
		return fmt.Sprintf("goroutine-leak: %v", r.Leaked)
	}
	return ""
}

func wcCheck(r *vrt.Result) string {
	if m := baseCheck(r, true, true, true); m != "" {
		return m
	}
	lastPred, predSeen := false, false
	cancelled := false
	var ret *vrt.Event
	for i := range r.Events {
		e := &r.Events[i]
		switch e.Kind {
		case "pred":
			predSeen = true
			lastPred = e.Args[0].(bool)
			if !e.Args[1].(bool) {
				return "pred-unlocked: predicate evaluated without the lock held"
			}
		case "cancel":
			cancelled = true
		case "ret":
			ret = e
		}
	}
	if ret == nil {
		return "no-return: WaitCond never returned"
	}
	okNil := ret.Args[0].(bool)
	if !ret.Args[2].(bool) {
		return "ret-unlocked: WaitCond returned without the lock held"
	}
	if okNil {
		if !predSeen || !lastPred {
			return "nil-without-true-pred: WaitCond returned nil but its last predicate evaluation was false"
		}
	} else {
		if !cancelled {
			return "error-without-cancel: WaitCond returned " + ret.Str(3) + " although the context was never cancelled"
		}
		if ret.Str(3) != "context canceled" {
			return "wrong-error: WaitCond returned " + ret.Str(3)
		}
	}
	return ""
}
