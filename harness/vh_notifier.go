package bigbuff

import (
	"context"
	"fmt"
	"sync"

	"github.com/joeycumines/go-bigbuff/internal/v/vrt"
)

// C15 — Notifier drivers.

// nPub: key "k" has four subscriptions - unbuffered chan int with a receiver thread (no context),
// buffered chan any guarded by context 1, buffered chan string guarded by context 2, buffered
// chan *int - and key "other" has one. Enumerated: the value kind, the registration order, which
// of the two subscription contexts get cancelled (by concurrent threads, at any point) or were
// cancelled beforehand, the publish context (nil / live / cancelled concurrently), the map
// iteration order, and which ready case reflect.Select takes.
func nPub(value func() (any, string), mode string) func() {
	return func() {
		var n Notifier
		v, kind := value()
		vrt.Log("value", kind)
		cInt := make(chan int)
		cAny := make(chan any, 2)
		cStr := make(chan string, 2)
		cOther := make(chan int, 2)
		cPtr := make(chan *int, 2)
		cFn := make(chan func(), 2) // element type assignable from, but not identical to, a named func type
		ctx1, cancel1 := context.WithCancel(context.Background())
		defer cancel1()
		ctx2, cancel2 := context.WithCancel(context.Background())
		defer cancel2()
		order := vrt.Choose(3, 0)
		regs := []func(){
			func() { n.Subscribe("k", cInt) },
			func() { n.SubscribeContext(ctx1, "k", cAny) },
			func() { n.SubscribeContext(ctx2, "k", cStr) },
		}
		for i := 0; i < 3; i++ {
			regs[(i+order)%3]()
		}
		n.Subscribe("k", cPtr)
		n.Subscribe("k", cFn)
		n.Subscribe("other", cOther)
		// which subscription contexts are cancelled: bit 0 = ctx1 (chan any), bit 1 = ctx2 (chan string)
		mask, pre := 0, false
		pubMode := 0 // 0 nil context, 1 live context, 2 context cancelled concurrently
		switch mode {
		case "plain":
			pubMode = vrt.Choose(2, 0)
		case "subcancel":
			mask = 1 + vrt.Choose(3, 0)
			pubMode = vrt.Choose(2, 0)
		case "presubcancel":
			mask, pre = 1+vrt.Choose(3, 0), true
			pubMode = vrt.Choose(2, 0)
		case "pubcancel":
			mask = vrt.Choose(4, 0)
			pubMode = 2
		}
		vrt.Log("config", mask, pre, pubMode)
		cancels := []context.CancelFunc{cancel1, cancel2}
		if pre {
			for i, c := range cancels {
				if mask&(1<<i) != 0 {
					vrt.Log("subcancel-call", i+1)
					c()
					vrt.Log("subcancel-ret", i+1)
				}
			}
		}
		var wg sync.WaitGroup
		giveup := make(chan struct{})
		wg.Add(1)
		go func() { // receiver of the unbuffered subscription
			defer wg.Done()
			for {
				select {
				case x := <-cInt:
					vrt.Log("recv", "int", x)
				case <-giveup:
					return
				}
			}
		}()
		var pubCtx context.Context
		pubCancel := context.CancelFunc(func() {})
		if pubMode > 0 {
			pubCtx, pubCancel = context.WithCancel(context.Background())
		}
		defer pubCancel()
		if !pre {
			for i, c := range cancels {
				if mask&(1<<i) != 0 {
					wg.Add(1)
					go func() {
						defer wg.Done()
						vrt.Log("subcancel-call", i+1)
						c()
						vrt.Log("subcancel-ret", i+1)
					}()
				}
			}
		}
		if pubMode == 2 {
			wg.Add(1)
			go func() {
				defer wg.Done()
				vrt.Log("pubcancel-call")
				pubCancel()
			}()
		}
		func() {
			defer func() {
				if r := recover(); r != nil {
					vrt.Log("publish-panic", fmt.Sprint(r))
				}
			}()
			vrt.Log("pubcall")
			if pubMode > 0 {
				n.PublishContext(pubCtx, "k", v)
			} else {
				n.Publish("k", v)
			}
			vrt.Log("pubret")
		}()
		close(giveup)
		wg.Wait()
		drainAny := func(name string, f func() (any, bool)) {
			for {
				x, ok := f()
				if !ok {
					return
				}
				vrt.Log("recv", name, fmt.Sprint(x))
			}
		}
		drainAny("any", func() (any, bool) {
			select {
			case x := <-cAny:
				return x, true
			default:
				return nil, false
			}
		})
		drainAny("str", func() (any, bool) {
			select {
			case x := <-cStr:
				return x, true
			default:
				return nil, false
			}
		})
		drainAny("fn", func() (any, bool) {
			select {
			case x := <-cFn:
				return x != nil, true
			default:
				return nil, false
			}
		})
		drainAny("ptr", func() (any, bool) {
			select {
			case x := <-cPtr:
				return x == nil, true
			default:
				return nil, false
			}
		})
		drainAny("other", func() (any, bool) {
			select {
			case x := <-cOther:
				return x, true
			default:
				return nil, false
			}
		})
		vrt.Log("done")
	}
}

// nReg: every sequence of Subscribe / Unsubscribe over 2 keys x 2 channels; after each step a
// probe publish to both keys shows the registry (C15, registry clause).
func nReg(length int) func() {
	return func() {
		var n Notifier
		chans := []chan int{make(chan int, 8), make(chan int, 8)}
		keys := []string{"k1", "k2"}
		probe := 100
		for step := 0; step < length; step++ {
			k := vrt.Choose(8, 0)
			sub, key, ch := k < 4, keys[(k/2)%2], k%2
			func() {
				defer func() {
					if r := recover(); r != nil {
						vrt.Log("op-panic", sub, key, ch)
					}
				}()
				if sub {
					n.Subscribe(key, chans[ch])
				} else {
					n.Unsubscribe(key, chans[ch])
				}
				vrt.Log("op", sub, key, ch)
			}()
			for ki, key := range keys {
				probe++
				n.Publish(key, probe)
				for ci, c := range chans {
					for {
						select {
						case x := <-c:
							vrt.Log("probe", ki, ci, x == probe)
							continue
						default:
						}
						break
					}
				}
			}
			vrt.Log("probed")
		}
	}
}

// nCancel: SubscribeCancel; the returned cancel (or the parent context) unsubscribes in a
// goroutine; a publish racing it may or may not deliver; afterwards nothing is delivered and no
// goroutine is left.
func nCancel(parent bool) func() {
	return func() {
		var n Notifier
		c := make(chan int, 4)
		pctx, pcancel := context.WithCancel(context.Background())
		defer pcancel()
		cancel := n.SubscribeCancel(pctx, "k", c)
		var wg sync.WaitGroup
		wg.Add(2)
		go func() {
			defer wg.Done()
			vrt.Log("cancel-call")
			if parent {
				pcancel()
			} else {
				cancel()
			}
			vrt.Log("cancel-ret")
		}()
		go func() {
			defer wg.Done()
			vrt.Log("pubcall")
			n.Publish("k", 1)
			vrt.Log("pubret")
		}()
		wg.Wait()
		cancel()
		// the unsubscription is asynchronous: wait until a probe is no longer delivered
		for i := 0; ; i++ {
			for len(c) > 0 {
				vrt.Log("recv", <-c)
			}
			n.Publish("k", 100+i)
			if len(c) == 0 {
				break
			}
			vrt.Yield()
		}
		vrt.Log("quiet")
	}
}

// N-cancel-dup: a refused operation must not change the registry. A second SubscribeCancel /
// SubscribeContext / Subscribe for a (key, target) pair that is already subscribed panics (as
// documented); the first subscription must still receive a later publish, at whatever point any
// clean-up of the refused call runs, and its own cancel must still withdraw it.
func nCancelDup(kind int) func() {
	return func() {
		var n Notifier
		c := make(chan int, 4)
		cancel := n.SubscribeCancel(context.Background(), "k", c)
		func() {
			defer func() {
				if r := recover(); r != nil {
					vrt.Log("dup-panic")
				}
			}()
			switch kind {
			case 0:
				n.SubscribeCancel(context.Background(), "k", c)
			case 1:
				ctx, cancel2 := context.WithCancel(context.Background())
				defer cancel2()
				n.SubscribeContext(ctx, "k", c)
			default:
				n.Subscribe("k", c)
			}
			vrt.Log("dup-returned")
		}()
		var wg sync.WaitGroup
		wg.Add(1)
		go func() {
			defer wg.Done()
			vrt.Log("pubcall")
			n.Publish("k", 1)
			vrt.Log("pubret", len(c))
		}()
		wg.Wait()
		for len(c) > 0 {
			vrt.Log("recv", <-c)
		}
		cancel()
		// the unsubscription is asynchronous: wait until a probe is no longer delivered
		for i := 0; ; i++ {
			for len(c) > 0 {
				<-c
			}
			n.Publish("k", 100+i)
			if len(c) == 0 {
				break
			}
			vrt.Yield()
		}
		vrt.Log("quiet")
	}
}

func init() {
	for kind, name := range []string{"N-cancel-dup", "N-cancel-dup-ctx", "N-cancel-dup-plain"} {
		vrt.Register(&vrt.Scenario{Name: name, Props: []string{"C15", "C11:race", "C12:goroutine-leak"}, Quick: 2, Thorough: 3,
			Desc: "a duplicate SubscribeCancel / SubscribeContext / Subscribe of a subscribed (key, target) pair is refused by a panic; the first subscription still receives a later publish and is withdrawn by its own cancel",
			Run:  nCancelDup(kind), Check: notifierDupCheck})
	}
	vals := func() (any, string) {
		switch vrt.Choose(3, 0) {
		case 0:
			return 1, "int"
		case 1:
			return "s", "string"
		default:
			// a NAMED func type: assignable to chan func() and to chan any, identical to neither
			return context.CancelFunc(func() {}), "cancelfunc"
		}
	}
	nilVal := func() (any, string) { return nil, "nil" }
	for _, s := range []struct {
		name string
		val  func() (any, string)
		mode string
		q, t int
		desc string
	}{
		{"N-pub", vals, "plain", 2, 3, "publish 1 / \"s\" (Publish or PublishContext with a live context) to four subscriptions of the key (one unbuffered with a receiver thread, two context-guarded) plus one under another key; registration and map orders enumerated"},
		{"N-pub-subcancel", vals, "subcancel", 1, 2, "same; one or both subscription contexts (of an eligible and of an ineligible subscription) are cancelled at any point of the publish"},
		{"N-pub-presubcancel", vals, "presubcancel", 1, 2, "same; the subscription contexts were cancelled before the publish"},
		{"N-pub-pubcancel", vals, "pubcancel", 1, 2, "same; the publish context is cancelled at any point, with or without subscription contexts being cancelled too"},
		{"N-pub-nil", nilVal, "plain", 1, 2, "publish of an untyped nil: deliverable exactly to nilable element types"},
	} {
		vrt.Register(&vrt.Scenario{Name: s.name, Props: []string{"C15", "C11:race", "C12:goroutine-leak"}, Quick: s.q, Thorough: s.t, Desc: s.desc,
			Opts: vrt.Options{MapPerm: true}, Run: nPub(s.val, s.mode), Check: notifierPubCheck})
	}
	vrt.Register(&vrt.Scenario{Name: "N-reg4", Props: []string{"C15"}, Quick: 0, Thorough: 0, Desc: "every sequence of 4 Subscribe/Unsubscribe operations over 2 keys x 2 channels, probed by publishing after each step",
		Run: nReg(4), Check: notifierRegCheck})
	vrt.Register(&vrt.Scenario{Name: "N-reg5", Props: []string{"C15"}, Quick: -1, Thorough: 0, Desc: "every sequence of 5 Subscribe/Unsubscribe operations over 2 keys x 2 channels",
		Run: nReg(5), Check: notifierRegCheck})
	vrt.Register(&vrt.Scenario{Name: "N-cancel", Props: []string{"C15", "C11:race", "C12:goroutine-leak"}, Quick: 2, Thorough: 3, Desc: "SubscribeCancel: cancel racing a publish; nothing delivered afterwards; no goroutine left",
		Run: nCancel(false), Check: notifierCancelCheck})
	vrt.Register(&vrt.Scenario{Name: "N-cancel-parent", Props: []string{"C15", "C11:race", "C12:goroutine-leak"}, Quick: 2, Thorough: 3, Desc: "SubscribeCancel: parent context cancelled racing a publish",
		Run: nCancel(true), Check: notifierCancelCheck})
}
