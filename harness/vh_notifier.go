package bigbuff

import (
	"context"
	"fmt"
	"sync"

	"github.com/joeycumines/go-bigbuff/internal/v/vrt"
)

// C15 — Notifier drivers.

// nPub: key "k" has three subscriptions (unbuffered chan int with a receiver thread, buffered
// chan any guarded by a context, buffered chan string), key "other" has one. The value kind, the
// order in which the subscriptions were registered, whether the guarded subscription's context
// and the publish context get cancelled (and when: scheduler), and the map iteration order are
// all enumerated.
func nPub(value func() (any, string), cancelSub, cancelPub, preCancelSub bool) func() {
	return func() {
		var n Notifier
		v, kind := value()
		vrt.Log("value", kind)
		cInt := make(chan int)
		cAny := make(chan any, 2)
		cStr := make(chan string, 2)
		cOther := make(chan int, 2)
		cPtr := make(chan *int, 2)
		subCtx, subCancel := context.WithCancel(context.Background())
		defer subCancel()
		// registration order is an enumerated choice: a guarded subscriber at every position
		order := vrt.Choose(3, 0)
		regs := []func(){
			func() { n.Subscribe("k", cInt) },
			func() { n.SubscribeContext(subCtx, "k", cAny) },
			func() { n.Subscribe("k", cStr) },
		}
		for i := 0; i < 3; i++ {
			regs[(i+order)%3]()
		}
		n.Subscribe("k", cPtr)
		n.Subscribe("other", cOther)
		if preCancelSub {
			vrt.Log("subcancel-call")
			subCancel()
			vrt.Log("subcancel-ret")
		}
		var wg sync.WaitGroup
		giveup := make(chan struct{})
		wg.Add(1)
		go func() { // receiver of the unbuffered subscription
			defer wg.Done()
			for {
				select {
				case x := <-cInt:
					vrt.Log("recv", "int", x)
				case <-giveup:
					return
				}
			}
		}()
		pubCtx, pubCancel := context.WithCancel(context.Background())
		defer pubCancel()
		if cancelSub && !preCancelSub {
			wg.Add(1)
			go func() {
				defer wg.Done()
				vrt.Log("subcancel-call")
				subCancel()
				vrt.Log("subcancel-ret")
			}()
		}
		if cancelPub {
			wg.Add(1)
			go func() {
				defer wg.Done()
				vrt.Log("pubcancel-call")
				pubCancel()
			}()
		}
		func() {
			defer func() {
				if r := recover(); r != nil {
					vrt.Log("publish-panic", fmt.Sprint(r))
				}
			}()
			vrt.Log("pubcall")
			if cancelPub {
				n.PublishContext(pubCtx, "k", v)
			} else {
				n.Publish("k", v)
			}
			vrt.Log("pubret")
		}()
		close(giveup)
		wg.Wait()
		drainAny := func(name string, f func() (any, bool)) {
			for {
				x, ok := f()
				if !ok {
					return
				}
				vrt.Log("recv", name, fmt.Sprint(x))
			}
		}
		drainAny("any", func() (any, bool) {
			select {
			case x := <-cAny:
				return x, true
			default:
				return nil, false
			}
		})
		drainAny("str", func() (any, bool) {
			select {
			case x := <-cStr:
				return x, true
			default:
				return nil, false
			}
		})
		drainAny("ptr", func() (any, bool) {
			select {
			case x := <-cPtr:
				return x == nil, true
			default:
				return nil, false
			}
		})
		drainAny("other", func() (any, bool) {
			select {
			case x := <-cOther:
				return x, true
			default:
				return nil, false
			}
		})
		vrt.Log("done")
	}
}

// nReg: every sequence of Subscribe / Unsubscribe over 2 keys x 2 channels; after each step a
// probe publish to both keys shows the registry (C15, registry clause).
func nReg(length int) func() {
	return func() {
		var n Notifier
		chans := []chan int{make(chan int, 8), make(chan int, 8)}
		keys := []string{"k1", "k2"}
		probe := 100
		for step := 0; step < length; step++ {
			k := vrt.Choose(8, 0)
			sub, key, ch := k < 4, keys[(k/2)%2], k%2
			func() {
				defer func() {
					if r := recover(); r != nil {
						vrt.Log("op-panic", sub, key, ch)
					}
				}()
				if sub {
					n.Subscribe(key, chans[ch])
				} else {
					n.Unsubscribe(key, chans[ch])
				}
				vrt.Log("op", sub, key, ch)
			}()
			for ki, key := range keys {
				probe++
				n.Publish(key, probe)
				for ci, c := range chans {
					for {
						select {
						case x := <-c:
							vrt.Log("probe", ki, ci, x == probe)
							continue
						default:
						}
						break
					}
				}
			}
			vrt.Log("probed")
		}
	}
}

// nCancel: SubscribeCancel; the returned cancel (or the parent context) unsubscribes in a
// goroutine; a publish racing it may or may not deliver; afterwards nothing is delivered and no
// goroutine is left.
func nCancel(parent bool) func() {
	return func() {
		var n Notifier
		c := make(chan int, 4)
		pctx, pcancel := context.WithCancel(context.Background())
		defer pcancel()
		cancel := n.SubscribeCancel(pctx, "k", c)
		var wg sync.WaitGroup
		wg.Add(2)
		go func() {
			defer wg.Done()
			vrt.Log("cancel-call")
			if parent {
				pcancel()
			} else {
				cancel()
			}
			vrt.Log("cancel-ret")
		}()
		go func() {
			defer wg.Done()
			vrt.Log("pubcall")
			n.Publish("k", 1)
			vrt.Log("pubret")
		}()
		wg.Wait()
		cancel()
		// the unsubscription is asynchronous: wait until a probe is no longer delivered
		for i := 0; ; i++ {
			for len(c) > 0 {
				vrt.Log("recv", <-c)
			}
			n.Publish("k", 100+i)
			if len(c) == 0 {
				break
			}
			vrt.Yield()
		}
		vrt.Log("quiet")
	}
}

func init() {
	vals := func() (any, string) {
		switch vrt.Choose(2, 0) {
		case 0:
			return 1, "int"
		default:
			return "s", "string"
		}
	}
	nilVal := func() (any, string) { return nil, "nil" }
	for _, s := range []struct {
		name                         string
		val                          func() (any, string)
		cancelSub, cancelPub, preSub bool
		q, t                         int
		desc                         string
	}{
		{"N-pub", vals, false, false, false, 2, 3, "publish 1 / \"s\" to three subscriptions of the key (one unbuffered with a receiver thread, one context-guarded) plus one under another key; registration and map orders enumerated"},
		{"N-pub-subcancel", vals, true, false, false, 1, 2, "same, the guarded subscription's context is cancelled at any point of the publish"},
		{"N-pub-presubcancel", vals, true, false, true, 1, 2, "same, the guarded subscription's context was cancelled before the publish"},
		{"N-pub-pubcancel", vals, false, true, false, 1, 2, "same, PublishContext whose context is cancelled at any point"},
		{"N-pub-nil", nilVal, false, false, false, 1, 2, "publish of an untyped nil: deliverable exactly to nilable element types"},
	} {
		vrt.Register(&vrt.Scenario{Name: s.name, Props: []string{"C15", "C11:race", "C12:goroutine-leak"}, Quick: s.q, Thorough: s.t, Desc: s.desc,
			Opts: vrt.Options{MapPerm: true}, Run: nPub(s.val, s.cancelSub, s.cancelPub, s.preSub), Check: notifierPubCheck})
	}
	vrt.Register(&vrt.Scenario{Name: "N-reg4", Props: []string{"C15"}, Quick: 0, Thorough: 0, Desc: "every sequence of 4 Subscribe/Unsubscribe operations over 2 keys x 2 channels, probed by publishing after each step",
		Run: nReg(4), Check: notifierRegCheck})
	vrt.Register(&vrt.Scenario{Name: "N-reg5", Props: []string{"C15"}, Quick: -1, Thorough: 0, Desc: "every sequence of 5 Subscribe/Unsubscribe operations over 2 keys x 2 channels",
		Run: nReg(5), Check: notifierRegCheck})
	vrt.Register(&vrt.Scenario{Name: "N-cancel", Props: []string{"C15", "C11:race", "C12:goroutine-leak"}, Quick: 2, Thorough: 3, Desc: "SubscribeCancel: cancel racing a publish; nothing delivered afterwards; no goroutine left",
		Run: nCancel(false), Check: notifierCancelCheck})
	vrt.Register(&vrt.Scenario{Name: "N-cancel-parent", Props: []string{"C15", "C11:race", "C12:goroutine-leak"}, Quick: 2, Thorough: 3, Desc: "SubscribeCancel: parent context cancelled racing a publish",
		Run: nCancel(true), Check: notifierCancelCheck})
}
