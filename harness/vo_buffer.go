package bigbuff

import (
	"fmt"
	"sort"
	"strings"

	"github.com/joeycumines/go-bigbuff/internal/v/vrt"
)

// Reference model of Buffer + consumers (DESIGN Appendix A.1). Values are unique int tokens.

type bmCons struct {
	id               int
	committed, delta int
	closing          bool // its context is cancelled: Gets fail
	claimed          bool // some Close call (explicit or the automatic one) owns the close
	explicit         bool // the owner is an explicit Close call (its end step unregisters)
	registered       bool
}

type bmState struct {
	log       []int
	base      int
	cons      []bmCons // sorted by id
	closing   bool     // Buffer.Close began (context cancelled)
	closed    bool     // Buffer.Close ended
	cancelled []int    // cancelled context ids, sorted
	policy    func(size int, offs []int) int
	k         string
}

func (s *bmState) key() string {
	if s.k == "" {
		var b strings.Builder
		fmt.Fprintf(&b, "L%v B%d C%v%v X%v", s.log, s.base, s.closing, s.closed, s.cancelled)
		for _, c := range s.cons {
			fmt.Fprintf(&b, " %d:%d+%d%v%v%v%v", c.id, c.committed, c.delta, c.closing, c.claimed, c.explicit, c.registered)
		}
		s.k = b.String()
	}
	return s.k
}

func (s *bmState) clone() *bmState {
	n := *s
	n.k = ""
	n.log = append([]int(nil), s.log...)
	n.cons = append([]bmCons(nil), s.cons...)
	n.cancelled = append([]int(nil), s.cancelled...)
	return &n
}

func (s *bmState) con(id int) *bmCons {
	for i := range s.cons {
		if s.cons[i].id == id {
			return &s.cons[i]
		}
	}
	return nil
}

func (s *bmState) isCancelled(ctx int) bool {
	for _, c := range s.cancelled {
		if c == ctx {
			return true
		}
	}
	return false
}

func defaultPolicy(size int, offs []int) int {
	lowest, active := size, false
	for _, o := range offs {
		if o == 0 {
			return 0
		}
		if o < 0 {
			continue
		}
		active = true
		if o < lowest {
			lowest = o
		}
	}
	if !active {
		return 0
	}
	return lowest
}

func fixedPolicy(max, target int) func(int, []int) int {
	return func(size int, offs []int) int {
		if size > max {
			return size - target
		}
		return defaultPolicy(size, offs)
	}
}

type bufModel struct{}

func errOf(res []any, i int) bool { // true = an error was returned
	if i >= len(res) {
		return false
	}
	s, _ := res[i].(string)
	return s != ""
}

func (bufModel) apply(st linState, op *linOp) []linState {
	s := st.(*bmState)
	one := func(n *bmState) []linState { return []linState{n} }
	same := one(s)
	switch op.kind {
	case "Cancel":
		n := s.clone()
		n.cancelled = append(n.cancelled, op.args[0].(int))
		sort.Ints(n.cancelled)
		return one(n)

	case "Put":
		ctx := op.args[0].(int)
		vals := op.args[1:]
		okRes := func() []linState {
			if s.closing {
				return nil
			}
			n := s.clone()
			for _, v := range vals {
				n.log = append(n.log, v.(int))
			}
			return one(n)
		}
		errRes := func() []linState {
			if s.closing || s.isCancelled(ctx) {
				return same
			}
			return nil
		}
		if op.pending {
			return append(okRes(), errRes()...)
		}
		if errOf(op.res, 0) {
			return errRes()
		}
		return okRes()

	case "New":
		okRes := func() []linState {
			if s.closing {
				return nil
			}
			n := s.clone()
			n.cons = append(n.cons, bmCons{id: op.id, committed: s.base, registered: true})
			sort.Slice(n.cons, func(i, j int) bool { return n.cons[i].id < n.cons[j].id })
			return one(n)
		}
		if op.pending {
			return append(okRes(), same...)
		}
		if errOf(op.res, 0) {
			if s.closing {
				return same
			}
			return nil
		}
		return okRes()

	case "Get":
		c := s.con(op.obj)
		if c == nil {
			return nil
		}
		ctx := op.args[0].(int)
		pos := c.committed + c.delta
		okRes := func(want int, check bool) []linState {
			if c.closing || s.closing || !c.registered || pos < s.base || pos >= len(s.log) {
				return nil
			}
			if check && s.log[pos] != want {
				return nil
			}
			n := s.clone()
			n.con(op.obj).delta++
			return one(n)
		}
		errRes := func() []linState {
			if c.closing || s.closing || !c.registered || pos < s.base || s.isCancelled(ctx) {
				return same
			}
			return nil
		}
		if op.pending {
			return append(okRes(0, false), same...)
		}
		if errOf(op.res, 1) {
			return errRes()
		}
		return okRes(op.res[0].(int), true)

	case "Commit":
		c := s.con(op.obj)
		if c == nil {
			return nil
		}
		okRes := func() []linState {
			if c.delta == 0 || !c.registered {
				return nil
			}
			n := s.clone()
			nc := n.con(op.obj)
			nc.committed += nc.delta
			nc.delta = 0
			return one(n)
		}
		if op.pending {
			return append(okRes(), same...)
		}
		if errOf(op.res, 0) {
			if c.delta == 0 || !c.registered {
				return same
			}
			return nil
		}
		return okRes()

	case "Rollback":
		c := s.con(op.obj)
		if c == nil {
			return nil
		}
		okRes := func() []linState {
			if c.delta == 0 {
				return nil
			}
			n := s.clone()
			n.con(op.obj).delta = 0
			return one(n)
		}
		if op.pending {
			return append(okRes(), same...)
		}
		if errOf(op.res, 0) {
			if c.delta == 0 {
				return same
			}
			return nil
		}
		return okRes()

	case "CloseC.begin": // an explicit Close that returned nil (or is pending): claims the close
		c := s.con(op.obj)
		if c == nil || c.claimed {
			return nil
		}
		n := s.clone()
		nc := n.con(op.obj)
		nc.claimed, nc.explicit, nc.closing = true, true, true
		return one(n)

	case "CloseC.end":
		c := s.con(op.obj)
		if c == nil || !c.claimed || !c.explicit || c.delta != 0 || !c.registered {
			return nil
		}
		n := s.clone()
		n.con(op.obj).registered = false
		return one(n)

	case "CloseC.again": // a Close call that returned an error: somebody else owns the close
		c := s.con(op.obj)
		if c == nil || !c.claimed {
			return nil
		}
		return same

	case "CloseB.begin":
		if s.closing {
			return nil
		}
		n := s.clone()
		n.closing = true
		for i := range n.cons {
			n.cons[i].closing = true
		}
		return one(n)

	case "CloseB.end":
		if !s.closing || s.closed {
			return nil
		}
		for _, c := range s.cons {
			if c.registered {
				return nil
			}
		}
		n := s.clone()
		n.closed = true
		return one(n)

	case "CloseB.again":
		if !s.closing {
			return nil
		}
		return same

	case "Slice":
		if op.pending {
			return same
		}
		got, _ := op.res[0].([]int)
		want := s.log[s.base:]
		if len(got) != len(want) {
			return nil
		}
		for i := range got {
			if got[i] != want[i] {
				return nil
			}
		}
		return same

	case "Size":
		if op.pending || op.res[0].(int) == len(s.log)-s.base {
			return same
		}
		return nil

	case "Diff":
		if op.pending {
			return same
		}
		c := s.con(op.obj)
		d, ok := op.res[0].(int), op.res[1].(bool)
		if c == nil || !c.registered {
			if !ok && d == 0 {
				return same
			}
			return nil
		}
		if ok && d == len(s.log)-(c.committed+c.delta) {
			return same
		}
		return nil
	}
	panic("bufModel: unknown op " + op.kind)
}

func (bufModel) internal(st linState) []linState {
	s := st.(*bmState)
	var out []linState
	// the cleaner (runs only while the buffer's context is live)
	if !s.closing {
		size := len(s.log) - s.base
		var offs []int
		for _, c := range s.cons {
			if c.registered {
				offs = append(offs, c.committed-s.base)
			}
		}
		k := s.policy(size, offs)
		if k > size {
			k = size
		}
		if k > 0 {
			n := s.clone()
			n.base += k
			out = append(out, n)
		}
	}
	// automatic close of consumers once the buffer is closing
	if s.closing {
		for i, c := range s.cons {
			if !c.claimed {
				n := s.clone()
				n.cons[i].claimed, n.cons[i].closing = true, true
				out = append(out, n)
			} else if !c.explicit && c.registered && c.delta == 0 {
				n := s.clone()
				n.cons[i].registered = false
				out = append(out, n)
			}
		}
	}
	return out
}

// bufferOps turns the event log into model operations, splitting Close calls into their steps.
func bufferOps(evs []vrt.Event) []*linOp {
	raw := opsFromEvents(evs)
	var ops []*linOp
	nextID := 1 << 40
	for _, o := range raw {
		switch o.kind {
		case "CloseC", "CloseB":
			if !o.pending && errOf(o.res, 0) {
				o.kind += ".again"
				ops = append(ops, o)
				continue
			}
			end := *o
			end.id = nextID
			nextID++
			end.kind = o.kind + ".end"
			end.after = o.id
			o.kind += ".begin"
			ops = append(ops, o, &end)
		default:
			ops = append(ops, o)
		}
	}
	return ops
}

// bufferLinCheck is the C01/C02/C03/C05 oracle: the history must have a linearization.
func bufferLinCheck(policy func(int, []int) int) func(r *vrt.Result) string {
	return func(r *vrt.Result) string {
		ops := bufferOps(r.Events)
		ok, why := linearize(bufModel{}, &bmState{policy: policy}, ops)
		if !ok {
			return "no-linearization: " + classifyBuffer(ops) + why
		}
		return ""
	}
}

// classifyBuffer gives a coarse reason for reports (does not affect the verdict).
func classifyBuffer(ops []*linOp) string {
	return ""
}

// bufferCheck: linearization + the C12 end-of-run clauses of the generic finish().
func bufferCheck(policy func(int, []int) int) func(r *vrt.Result) string {
	return bufferCheckSig(policy, "close")
}

// bufferCheckSig: blockSig names a call that never returns ("close-deadlock" belongs to C12,
// "lost-wakeup-deadlock" to C05's blocked-Get drivers).
func bufferCheckSig(policy func(int, []int) int, blockSig string) func(r *vrt.Result) string {
	lin := bufferLinCheck(policy)
	return func(r *vrt.Result) string {
		if r.Status == vrt.StSteps {
			return "step-horizon: execution exceeded the step horizon"
		}
		if len(r.Panics) > 0 {
			return fmt.Sprintf("panic: %s in T%s", r.Panics[0].Msg, r.Panics[0].Thread)
		}
		// C12: once Buffer.Close / consumer.Close has returned, later Put / NewConsumer / Get /
		// Commit fail (they neither succeed, block nor panic)
		{
			ops := opsFromEvents(r.Events)
			var bufClosed int64
			consClosed := map[int]int64{}
			for _, o := range ops {
				if o.pending || errOf(o.res, 0) {
					continue
				}
				if o.kind == "CloseB" && (bufClosed == 0 || o.ret < bufClosed) {
					bufClosed = o.ret
				}
				if o.kind == "CloseC" && (consClosed[o.obj] == 0 || o.ret < consClosed[o.obj]) {
					consClosed[o.obj] = o.ret
				}
			}
			for _, o := range ops {
				if o.pending {
					continue
				}
				after := bufClosed != 0 && o.call > bufClosed
				if cc := consClosed[o.obj]; o.obj >= 0 && cc != 0 && o.call > cc {
					after = true
				}
				if !after {
					continue
				}
				switch o.kind {
				case "Put", "New", "Commit":
					if !errOf(o.res, 0) && (o.kind != "Put" && o.kind != "New" || bufClosed != 0 && o.call > bufClosed) {
						return fmt.Sprintf("close-later-call: %s was called after Close had returned and did not fail", o)
					}
				case "Get":
					if !errOf(o.res, 1) {
						return fmt.Sprintf("close-later-call: %s was called after Close had returned and did not fail", o)
					}
				}
			}
		}
		if m := lin(r); m != "" {
			return m
		}
		if r.Status != vrt.StOK {
			return fmt.Sprintf("%s-%s: a call never returned: %v", blockSig, r.Status, r.Blocked)
		}
		for _, e := range r.Events {
			switch e.Kind {
			case "done-buffer":
				if !e.Args[0].(bool) {
					return "close-done-open: Buffer.Done() is not closed after Close returned"
				}
			case "done-consumer":
				if !e.Args[1].(bool) {
					return "close-done-open: consumer Done() is not closed after Buffer.Close returned"
				}
			}
		}
		if len(r.Leaked) > 0 {
			return fmt.Sprintf("goroutine-leak: %v", r.Leaked)
		}
		return ""
	}
}

// reclaimCheck (C04): the buffer shrank to the expected size with no further operation
// (a livelock of the polling loop means it never did), within two cooldowns of virtual time.
func reclaimCheck(policy func(int, []int) int) func(r *vrt.Result) string {
	base := bufferCheck(policy)
	return func(r *vrt.Result) string {
		quiet := -1
		for _, e := range r.Events {
			switch e.Kind {
			case "busy-size":
				// an operation every 4ms, cooldown 10ms: whatever was committed more than two cooldowns
				// (5 operations) ago must be gone, scheduling latency included
				if e.Int(1) > 7 {
					return fmt.Sprintf("reclaim-stalled: %d values retained after %d put/get/commit rounds 4ms apart with a 10ms cooldown", e.Int(1), e.Int(0))
				}
			case "quiet":
				quiet = e.Int(0)
			case "reclaimed":
				cd := e.Int(2)
				if cd < 10_000_000 {
					cd = 10_000_000 // the cleaner goroutine may have read the default cooldown before it was configured
				}
				if d := e.Int(0) - quiet; d > 2*cd {
					return fmt.Sprintf("reclaim-late: the consumed prefix was freed %dns after the program went quiet (cooldown %dns)", d, e.Int(2))
				}
			}
		}
		if quiet >= 0 && r.Status != vrt.StOK {
			reached := false
			for _, e := range r.Events {
				if e.Kind == "reclaimed" {
					reached = true
				}
			}
			if !reached {
				return fmt.Sprintf("reclaim-never: after the program went quiet the consumed prefix was never freed (%s): %v", r.Status, r.Blocked)
			}
		}
		return base(r)
	}
}

// bufRangeCheck (C02, Range clauses): contiguous visit from the start; the value in flight when
// the callback panicked is the next value read; a value whose callback returned is committed;
// with an always-true callback Range visits at least everything put before it was called, at
// most everything put before it returned, and returns instead of blocking.
func bufRangeCheck(r *vrt.Result) string {
	if m := baseCheck(r, false, true, true); m != "" {
		return m
	}
	if r.Status != vrt.StOK {
		return fmt.Sprintf("range-blocked: Buffer.Range (or a later call) never returned: %v", r.Blocked)
	}
	variant := -1
	pre := false
	var visited []int
	var callAt, retAt, lastFnEnd int64
	ret := ""
	putRet := map[int]int64{}
	putCall := map[int]int64{}
	next := -2
	for _, e := range r.Events {
		switch e.Kind {
		case "variant":
			variant = e.Int(0)
		case "pre-read":
			pre = true
		case "range-call":
			callAt = e.Seq
		case "range-fn":
			if e.Int(0) != len(visited) {
				return fmt.Sprintf("range-index: callback index %d at position %d", e.Int(0), len(visited))
			}
			visited = append(visited, e.Int(1))
		case "range-fn-end":
			lastFnEnd = e.Seq
		case "range-ret":
			retAt = e.Seq
			ret = e.Str(0) + " " + e.Str(1)
		case "putcall":
			putCall[e.Int(0)] = e.Seq
		case "putret":
			putRet[e.Int(0)] = e.Seq
		case "next-get":
			next = e.Int(0)
		}
	}
	for i, v := range visited {
		if v != i+1 {
			return fmt.Sprintf("range-order: visited %v, expected the contiguous run 1,2,...", visited)
		}
	}
	availBefore, putBeforeRet := 0, 0
	last := 3 // the last value ever put
	if putCall[1] != 0 {
		last = 1
		if putRet[1] != 0 && putRet[1] < callAt {
			availBefore = 1
		}
		if putCall[1] < retAt {
			putBeforeRet = 1
		}
	}
	if putRet[2] != 0 && putRet[2] < callAt {
		availBefore = 2
	}
	if putRet[3] != 0 && putRet[3] < callAt {
		availBefore = 3
	}
	if putCall[2] != 0 && putCall[2] < retAt {
		putBeforeRet = 2
	}
	if putCall[3] != 0 && putCall[3] < retAt {
		putBeforeRet = 3
	}
	wantNext := func(n int) string {
		if n > last {
			if next != 0 {
				return fmt.Sprintf("range-next: after Range (visited %v, %s) nothing should be left, next Get gave %d", visited, ret, next)
			}
			return ""
		}
		if next != n {
			return fmt.Sprintf("range-next: after Range (visited %v, %s, uncommitted read before=%v) the next Get must return %d, got %d", visited, ret, pre, n, next)
		}
		return ""
	}
	switch variant {
	case 0:
		if strings.TrimSpace(ret) != "err" {
			return "range-ret: Range with an always-true callback returned " + ret
		}
		if len(visited) < availBefore || len(visited) > putBeforeRet {
			return fmt.Sprintf("range-extent: visited %v but %d values were put before Range was called and %d before it returned", visited, availBefore, putBeforeRet)
		}
		// "visits exactly the values available when it reaches the end of the buffer": the end is
		// reached once the callback of the last visited value has returned, so a value whose Put had
		// returned by then was available and must have been visited.
		availAtEnd := 0
		for _, n := range []int{1, 2, 3} {
			if putRet[n] != 0 && len(visited) > 0 && putRet[n] < lastFnEnd {
				availAtEnd = n
			}
		}
		if len(visited) < availAtEnd {
			return fmt.Sprintf("range-extent: Range stopped after %v although the Put of value %d had returned before the last callback returned", visited, availAtEnd)
		}
		return wantNext(len(visited) + 1)
	case 1, 2:
		stop := variant // false at index variant-1 => visited == variant values (when that many were reached)
		if len(visited) > stop {
			return fmt.Sprintf("range-stop: callback returned false at index %d but Range went on: %v", stop-1, visited)
		}
		if strings.TrimSpace(ret) != "err" {
			return "range-ret: Range returned " + ret
		}
		return wantNext(len(visited) + 1) // a value whose callback returned is committed
	case 3, 4:
		at := variant - 2 // panic at index at-1
		if len(visited) > at {
			return fmt.Sprintf("range-stop: callback panicked at index %d but Range went on: %v", at-1, visited)
		}
		if len(visited) == at {
			if !strings.HasPrefix(ret, "panic") {
				return "range-ret: the callback's panic did not propagate: " + ret
			}
			if pre && at == 1 {
				return wantNext(0) // the rollback also discards the read made before Range started
			}
			return wantNext(at) // the value in flight was rolled back
		}
		return wantNext(len(visited) + 1)
	}
	return "range-variant: unknown variant"
}
