package bigbuff

import (
	"context"
	"sync"
	"sync/atomic"

	"github.com/joeycumines/go-bigbuff/internal/v/vrt"
)

// C16 — context combinators. Input states and the set of inputs that get cancelled are
// enumerated choices; the cancellations themselves run in concurrent threads.

type ctxKey string

type ctxIn struct {
	ctx    context.Context
	cancel context.CancelFunc
	state  int // 0 live, 1 already cancelled, 2 nil, 3 never cancellable (Done() == nil)
}

func mkInput(name string, allowNil bool) ctxIn {
	n := 3
	if allowNil {
		n = 4
	}
	st := vrt.Choose(n, 0)
	if st == 2 {
		// a context that can never be cancelled: it stays live for ever
		vrt.Log("input", name, "never")
		return ctxIn{ctx: context.WithValue(context.Background(), ctxKey("who"), name), cancel: func() {}, state: 3}
	}
	if st == 3 {
		vrt.Log("input", name, "nil")
		return ctxIn{state: 2, cancel: func() {}}
	}
	ctx, cancel := context.WithCancel(context.WithValue(context.Background(), ctxKey("who"), name))
	if st == 1 {
		cancel()
		vrt.Log("input", name, "cancelled")
	} else {
		vrt.Log("input", name, "live")
	}
	return ctxIn{ctx, cancel, st}
}

// awaitErr polls (yielding) until ctx is cancelled; a context that never gets cancelled shows
// up as a livelock of this loop.
func awaitErr(ctx context.Context) {
	for ctx.Err() == nil {
		vrt.Yield()
	}
}

func settle() {
	for i := 0; i < 4; i++ {
		vrt.Yield()
	}
}

func combineScenario() {
	p := mkInput("p", false)
	o1 := mkInput("o1", true)
	o2 := mkInput("o2", true)
	r := CombineContext(p.ctx, o1.ctx, o2.ctx)
	anyPre := p.state == 1 || o1.state == 1 || o2.state == 1
	vrt.Log("constructed", r.Err() != nil, anyPre)
	vrt.Log("value", r.Value(ctxKey("who")) == "p")
	if !anyPre {
		// which live inputs get cancelled (concurrently)
		ins := []ctxIn{p, o1, o2}
		mask := vrt.Choose(8, 0)
		var wg sync.WaitGroup
		cancelled := false
		for i, in := range ins {
			if mask&(1<<i) != 0 && in.state == 0 {
				cancelled = true
				wg.Add(1)
				go func() {
					defer wg.Done()
					in.cancel()
				}()
			}
		}
		wg.Wait()
		if cancelled {
			awaitErr(r)
			vrt.Log("propagated", true)
		} else {
			settle()
			vrt.Log("still-live", r.Err() == nil)
		}
	}
	p.cancel()
	o1.cancel()
	o2.cancel()
	if p.state != 3 || o1.state <= 1 || o2.state <= 1 {
		awaitErr(r) // some input is (now) cancelled
	} else {
		settle()
		vrt.Log("still-live", r.Err() == nil)
	}
	vrt.Log("end")
}

func conflatedScenario() {
	ins := []ctxIn{mkInput("c1", false), mkInput("c2", false), mkInput("c3", false)}
	r, cancel := ConflatedContext(ins[0].ctx, ins[1].ctx, ins[2].ctx)
	allPre := ins[0].state == 1 && ins[1].state == 1 && ins[2].state == 1
	vrt.Log("constructed", r.Err() != nil, allPre)
	vrt.Log("value", r.Value(ctxKey("who")) == "c1")
	if !allPre {
		mask := vrt.Choose(8, 0)
		useCancel := vrt.Choose(2, 0) == 1
		var wg sync.WaitGroup
		live := 0
		for i, in := range ins {
			if in.state == 3 {
				live++ // never cancellable: keeps the result live for ever
			}
			if in.state == 0 {
				if mask&(1<<i) != 0 {
					wg.Add(1)
					go func() {
						defer wg.Done()
						in.cancel()
					}()
				} else {
					live++
				}
			}
		}
		if useCancel {
			wg.Add(1)
			go func() {
				defer wg.Done()
				cancel()
			}()
		}
		wg.Wait()
		if live == 0 || useCancel {
			awaitErr(r)
			vrt.Log("propagated", true)
		} else {
			settle()
			vrt.Log("still-live", r.Err() == nil)
		}
	}
	for _, in := range ins {
		in.cancel()
	}
	if ins[0].state != 3 && ins[1].state != 3 && ins[2].state != 3 {
		awaitErr(r) // every input is cancelled now
	} else if !allPre {
		settle()
	}
	cancel()
	awaitErr(r)
	vrt.Log("end")
}

func chainScenario() {
	a := mkInput("a", false)
	b := mkInput("b", false)
	var ran atomic.Int32
	ChainAfterFunc(a.ctx, b.ctx, func() { vrt.Log("f"); ran.Add(1) })
	awaitRan := func() { // positive expectations are awaited (a never-running f is a livelock), not sampled
		for ran.Load() == 0 {
			vrt.Yield()
		}
	}
	mask := vrt.Choose(4, 0)
	var wg sync.WaitGroup
	for i, in := range []ctxIn{a, b} {
		if mask&(1<<i) != 0 {
			wg.Add(1)
			go func() {
				defer wg.Done()
				in.cancel()
			}()
		}
	}
	wg.Wait()
	any := a.state == 1 || b.state == 1 || (mask&1 != 0 && a.state == 0) || (mask&2 != 0 && b.state == 0)
	if any {
		awaitRan()
	}
	settle()
	vrt.Log("phase1", any)
	a.cancel()
	b.cancel()
	if a.state != 3 || b.state != 3 {
		awaitRan()
	}
	settle()
	vrt.Log("phase2", a.state != 3 || b.state != 3) // some context is cancelled by now unless neither can be
	vrt.Log("end")
}

func init() {
	for _, s := range []struct {
		name string
		run  func()
		desc string
	}{
		{"CTX-combine", combineScenario, "CombineContext(p, o1, o2): every input state (live / already cancelled / nil others) x every subset of live inputs cancelled concurrently"},
		{"CTX-conflated", conflatedScenario, "ConflatedContext(c1, c2, c3): every input state x every subset cancelled concurrently x cancel func"},
		{"CTX-chain", chainScenario, "ChainAfterFunc(a, b, f): every input state x a and b cancelled concurrently, one, or neither"},
	} {
		vrt.Register(&vrt.Scenario{Name: s.name, Props: []string{"C16", "C11:race", "C12:goroutine-leak"}, Quick: 2, Thorough: 3, Desc: s.desc,
			Opts: vrt.Options{Delay: true}, Run: s.run, Check: contextCheck})
	}
}

// CTX-combine-during: the inputs are cancelled by threads that are already running while
// CombineContext / ConflatedContext wire the result up.
func combineDuring() {
	p := mkLive("p")
	o1 := mkLive("o1")
	o2 := mkLive("o2")
	mask := 1 + vrt.Choose(7, 0)
	var wg sync.WaitGroup
	for i, in := range []ctxIn{p, o1, o2} {
		if mask&(1<<i) != 0 {
			wg.Add(1)
			go func() {
				defer wg.Done()
				in.cancel()
			}()
		}
	}
	var r context.Context
	if vrt.Choose(2, 0) == 0 {
		r = CombineContext(p.ctx, o1.ctx, o2.ctx)
		wg.Wait()
		awaitErr(r) // at least one input was cancelled
	} else {
		var cancel context.CancelFunc
		r, cancel = ConflatedContext(p.ctx, o1.ctx, o2.ctx)
		wg.Wait()
		if mask == 7 {
			awaitErr(r)
		} else {
			settle()
			vrt.Log("still-live", r.Err() == nil)
		}
		cancel()
		awaitErr(r)
	}
	vrt.Log("value", r.Value(ctxKey("who")) == "p")
	p.cancel()
	o1.cancel()
	o2.cancel()
	vrt.Log("end")
}

func mkLive(name string) ctxIn {
	ctx, cancel := context.WithCancel(context.WithValue(context.Background(), ctxKey("who"), name))
	return ctxIn{ctx, cancel, 0}
}

func init() {
	vrt.Register(&vrt.Scenario{Name: "CTX-combine-during", Props: []string{"C16", "C11:race", "C12:goroutine-leak"}, Quick: 2, Thorough: 3,
		Desc: "CombineContext / ConflatedContext constructed while concurrent threads are cancelling a subset of the (live) inputs",
		Opts: vrt.Options{Delay: true}, Run: combineDuring, Check: contextCheck})
}
