package bigbuff

import (
	"context"
	"fmt"
	"sync"

	"github.com/joeycumines/go-bigbuff/internal/v/vrt"
)

// C06 / C07 — ChanPubSub drivers (DESIGN Appendix E). Subscribers obey the documented contract:
// subscribe, then cycle receive -> Wait, unsubscribe promptly when done.

type psEnv struct {
	ps   *ChanPubSub[chan int, int]
	quit chan struct{} // closed by main when the senders are done
	swg  sync.WaitGroup
	uwg  sync.WaitGroup
}

// manualSub: Add(1); up to k times { receive; Wait }; Add(-1). quit ends it early.
func (e *psEnv) manualSub(id, k int, quit <-chan struct{}, subscribed chan<- struct{}) {
	defer e.uwg.Done()
	vrt.Log("subcall", id, "manual")
	e.ps.Add(1)
	vrt.Log("sub", id)
	if subscribed != nil {
		close(subscribed)
	}
loop:
	for i := 0; i < k; i++ {
		select {
		case v := <-e.ps.C():
			vrt.Log("recv", id, v)
			vrt.Log("waitcall", id, v)
			e.ps.Wait()
			vrt.Log("waitret", id, v)
		case <-quit:
			break loop
		}
	}
	vrt.Log("unsubcall", id)
	e.ps.Add(-1)
	vrt.Log("unsubret", id)
}

// iterSub: SubscribeContext iterator, leaves after maxYield values (0: only when cancelled).
func (e *psEnv) iterSub(id int, ctx context.Context, maxYield int, subscribed chan<- struct{}) {
	defer e.uwg.Done()
	vrt.Log("subcall", id)
	seq := e.ps.SubscribeContext(ctx)
	vrt.Log("sub", id)
	if subscribed != nil {
		close(subscribed)
	}
	n := 0
	for v := range seq {
		vrt.Log("recv", id, v)
		n++
		if n == maxYield {
			vrt.Log("unsubcall", id)
			break
		}
	}
	vrt.Log("unsubret", id)
}

func (e *psEnv) sender(msgs ...int) {
	defer e.swg.Done()
	for _, m := range msgs {
		vrt.Log("sendcall", m)
		n := e.ps.Send(m)
		vrt.Log("sendret", m, n)
	}
}

// finish: the generic end of every ChanPubSub driver.
func (e *psEnv) finish(cancels ...psCancel) {
	e.swg.Wait()
	vrt.Log("senders-joined")
	for _, c := range cancels {
		vrt.Log("unsubcall", c.id) // cancelling its context withdraws an iterator subscription
		c.cancel()
	}
	close(e.quit)
	e.uwg.Wait()
	// withdrawal by context cancellation is asynchronous (an AfterFunc goroutine): wait for it.
	// A count that never returns to zero shows up as a livelock of this loop.
	for e.ps.Add(0) != 0 {
		vrt.Yield()
	}
	vrt.Log("final-count", e.ps.Add(0))
	// the instance must still work: a fresh subscriber gets the next message
	sub := make(chan struct{})
	q := make(chan struct{})
	e.uwg.Add(1)
	go e.manualSub(99, 1, q, sub)
	<-sub
	vrt.Log("sendcall", 99)
	n := e.ps.Send(99)
	vrt.Log("sendret", 99, n)
	e.uwg.Wait()
	vrt.Log("final-count", e.ps.Add(0))
}

type psCancel struct {
	id     int
	cancel context.CancelFunc
}

func newPsEnv() *psEnv {
	return &psEnv{ps: NewChanPubSub(make(chan int)), quit: make(chan struct{})}
}

func psBasic() {
	e := newPsEnv()
	ctx, cancel := context.WithCancel(context.Background())
	e.uwg.Add(2)
	go e.iterSub(1, ctx, 0, nil)
	go e.manualSub(2, 2, e.quit, nil)
	e.swg.Add(1)
	go e.sender(1, 2)
	e.finish(psCancel{1, cancel})
}

func psTwoSenders() {
	e := newPsEnv()
	a, b := make(chan struct{}), make(chan struct{})
	e.uwg.Add(2)
	go e.manualSub(1, 2, e.quit, a)
	go e.manualSub(2, 2, e.quit, b)
	<-a
	<-b
	e.swg.Add(2)
	go e.sender(1)
	go e.sender(2)
	e.finish()
}

func psJoin() {
	// B subscribes while A is already receiving and a Send is in flight
	e := newPsEnv()
	a := make(chan struct{})
	e.uwg.Add(1)
	go e.manualSub(1, 2, e.quit, a)
	<-a
	e.swg.Add(1)
	go e.sender(1, 2)
	e.uwg.Add(1)
	go e.manualSub(2, 2, e.quit, nil)
	e.finish()
}

func psLeave() {
	// A (iterator) leaves after one value or when its context is cancelled, at any point of the Sends
	e := newPsEnv()
	ctx, cancel := context.WithCancel(context.Background())
	a, b := make(chan struct{}), make(chan struct{})
	e.uwg.Add(2)
	go e.iterSub(1, ctx, 1, a)
	go e.manualSub(2, 2, e.quit, b)
	<-a
	<-b
	go func() {
		vrt.Log("unsubcall", 1)
		cancel()
	}()
	e.swg.Add(1)
	go e.sender(1, 2)
	e.finish(psCancel{1, cancel})
}

func psLeaveBeforeRecv() {
	e := newPsEnv()
	b := make(chan struct{})
	e.uwg.Add(2)
	go e.manualSub(1, 0, e.quit, nil) // subscribe, immediately unsubscribe
	go e.manualSub(2, 1, e.quit, b)
	<-b
	e.swg.Add(1)
	go e.sender(1)
	e.finish()
}

func psCancelNeverIter(preCancelled bool) func() {
	return func() {
		e := newPsEnv()
		ctx, cancel := context.WithCancel(context.Background())
		if preCancelled {
			vrt.Log("unsubcall", 1)
			cancel()
		}
		b := make(chan struct{})
		e.uwg.Add(1)
		go e.manualSub(2, 1, e.quit, b)
		<-b
		vrt.Log("subcall", 1)
		_ = e.ps.SubscribeContext(ctx) // iterator never run: the context must release the subscription
		vrt.Log("sub", 1)
		go func() {
			vrt.Log("unsubcall", 1)
			cancel()
		}()
		e.swg.Add(1)
		go e.sender(1)
		e.finish(psCancel{1, cancel})
	}
}

func psMidSend() {
	// A unsubscribes (its quit is closed by a canceller thread) at any point of the Send
	e := newPsEnv()
	qa := make(chan struct{})
	a, b := make(chan struct{}), make(chan struct{})
	e.uwg.Add(2)
	go e.manualSub(1, 1, qa, a)
	go e.manualSub(2, 1, e.quit, b)
	<-a
	<-b
	go func() {
		vrt.Log("quit", 1)
		close(qa)
	}()
	e.swg.Add(1)
	go e.sender(1)
	e.finish()
}

func psChurn() {
	e := newPsEnv()
	ctx, cancel := context.WithCancel(context.Background())
	e.uwg.Add(2)
	go func() {
		e.uwg.Add(1)
		e.manualSub(1, 1, e.quit, nil)
		e.manualSub(3, 1, e.quit, nil) // the same goroutine subscribes again
	}()
	go e.iterSub(2, ctx, 1, nil)
	e.swg.Add(2)
	go e.sender(1)
	go e.sender(2)
	e.finish(psCancel{2, cancel})
}

func psNone() {
	e := newPsEnv()
	e.swg.Add(1)
	go e.sender(1)
	e.finish()
}

func init() {
	for _, s := range []struct {
		name string
		run  func()
		q, t int
		desc string
	}{
		{"S-none", psNone, 2, 3, "Send with no subscriber returns 0 without blocking"},
		{"S-basic", psBasic, 1, 2, "sender [1,2] vs iterator subscriber A and manual subscriber B joining concurrently"},
		{"S-2send", psTwoSenders, 1, 2, "two standing manual subscribers, two concurrent senders"},
		{"S-join", psJoin, 1, 2, "B subscribes while A is receiving and Sends are in flight"},
		{"S-leave", psLeave, 1, 2, "iterator subscriber leaves early / is cancelled at any point of two Sends"},
		{"S-leave-before-recv", psLeaveBeforeRecv, 1, 2, "a subscriber unsubscribes before ever receiving, racing a Send"},
		{"S-cancel-never-iter", psCancelNeverIter(false), 1, 2, "SubscribeContext whose iterator is never run; context cancelled at any point of a Send"},
		{"S-cancel-never-iter-pre", psCancelNeverIter(true), 2, 3, "SubscribeContext with an already cancelled context, iterator never run"},
		{"S-mid-send", psMidSend, 2, 3, "manual subscriber told to quit at any point of a Send"},
		{"S-churn", psChurn, 1, 2, "subscribers joining, leaving and re-joining around two concurrent Sends"},
	} {
		vrt.Register(&vrt.Scenario{Name: s.name, Props: []string{"C06:deliver-", "C07", "C11:race", "C12:goroutine-leak"},
			Quick: s.q, Thorough: s.t, Desc: s.desc, Run: s.run, Check: pubsubCheck})
	}
}

// S-last-leaves: the only counted subscriber is told to quit at any point of a Send while a new
// subscriber joins concurrently (and would receive whatever reaches the channel).
func psLastLeaves() {
	e := newPsEnv()
	qa := make(chan struct{})
	a := make(chan struct{})
	e.uwg.Add(1)
	go e.manualSub(1, 1, qa, a)
	<-a
	go func() {
		vrt.Log("quit", 1)
		close(qa)
	}()
	e.swg.Add(1)
	go e.sender(1)
	e.uwg.Add(1)
	go e.manualSub(2, 1, e.quit, nil)
	e.finish()
}

func init() {
	for _, delay := range []bool{false, true} {
		name, q, t := "S-last-leaves", 2, 3
		if delay {
			name, q, t = "S-last-leaves-d", 3, 5
		}
		vrt.Register(&vrt.Scenario{Name: name, Props: []string{"C06:deliver-", "C07", "C11:race", "C12:goroutine-leak"},
			Quick: q, Thorough: t, Desc: "the only counted subscriber leaves at any point of a Send while a new subscriber joins concurrently",
			Opts: vrt.Options{Delay: delay}, Run: psLastLeaves, Check: pubsubCheck})
	}
}

// S-sub-cancelled: SubscribeContext with an already cancelled context (iterator never run) is
// called WHILE a Send to a standing subscriber is in flight.
func psSubCancelled() {
	e := newPsEnv()
	ctx, cancel := context.WithCancel(context.Background())
	vrt.Log("unsubcall", 1)
	cancel()
	b := make(chan struct{})
	e.uwg.Add(1)
	go e.manualSub(2, 1, e.quit, b)
	<-b
	e.swg.Add(1)
	go e.sender(1)
	vrt.Log("subcall", 1)
	_ = e.ps.SubscribeContext(ctx)
	vrt.Log("sub", 1)
	e.finish(psCancel{1, cancel})
}

func init() {
	vrt.Register(&vrt.Scenario{Name: "S-sub-cancelled", Props: []string{"C06:deliver-", "C07", "C11:race", "C12:goroutine-leak"},
		Quick: 2, Thorough: 3, Desc: "SubscribeContext with an already cancelled context, called while a Send to a standing subscriber is in flight",
		Run: psSubCancelled, Check: pubsubCheck})
}

// S-nil-yield: the iterator of a SubscribeContext subscription is called with a nil yield function
// (documented: it panics, after making sure the subscription is withdrawn) before, after or
// concurrently with the cancellation of its context: withdrawn exactly once in every case, so a
// standing subscriber still gets the next message.
func psNilYield(mode int) func() {
	return func() {
		e := newPsEnv()
		ctx, cancel := context.WithCancel(context.Background())
		for id := 2; id <= 3; id++ {
			b := make(chan struct{})
			e.uwg.Add(1)
			go e.manualSub(id, 1, e.quit, b)
			<-b
		}
		vrt.Log("subcall", 1)
		seq := e.ps.SubscribeContext(ctx)
		vrt.Log("sub", 1)
		var wg sync.WaitGroup
		switch mode {
		case 0: // cancelled first; the asynchronous withdrawal may or may not have run yet
			vrt.Log("unsubcall", 1)
			cancel()
		case 1: // cancelled concurrently
			wg.Add(1)
			go func() {
				defer wg.Done()
				vrt.Log("unsubcall", 1)
				cancel()
			}()
		}
		func() {
			defer func() {
				if r := recover(); r != nil {
					vrt.Log("nil-yield-panic", fmt.Sprint(r))
				}
			}()
			vrt.Log("unsubcall", 1)
			seq(nil)
			vrt.Log("nil-yield-returned")
		}()
		wg.Wait()
		e.swg.Add(1)
		go e.sender(1)
		e.finish(psCancel{1, cancel})
	}
}

func init() {
	for mode, name := range []string{"S-nil-yield-after", "S-nil-yield-during", "S-nil-yield-before"} {
		vrt.Register(&vrt.Scenario{Name: name, Props: []string{"C06:deliver-", "C07", "C11:race", "C12:goroutine-leak"},
			Quick: 2, Thorough: 3, Desc: "the iterator of a SubscribeContext subscription is called with a nil yield function after / during / before the cancellation of its context; then a Send to two standing subscribers",
			Run: psNilYield(mode), Check: pubsubCheck})
	}
}
