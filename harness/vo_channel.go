package bigbuff

import (
	"fmt"
	"strings"

	"github.com/joeycumines/go-bigbuff/internal/v/vrt"
)

// Reference model of Channel (DESIGN Appendix A.2).
type chmState struct {
	src       []int
	srcClosed bool
	buf       []int
	rb        int
	committed []int
	closed    bool // the Channel's context is cancelled
	claimed   bool // some Close call (explicit or the cleanup goroutine's) was first
	cancelled []int
	k         string
}

func (s *chmState) key() string {
	if s.k == "" {
		s.k = fmt.Sprintf("S%v%v B%v R%d C%v X%v%v %v", s.src, s.srcClosed, s.buf, s.rb, s.committed, s.closed, s.claimed, s.cancelled)
	}
	return s.k
}

func (s *chmState) clone() *chmState {
	n := *s
	n.k = ""
	n.src = append([]int(nil), s.src...)
	n.buf = append([]int(nil), s.buf...)
	n.committed = append([]int(nil), s.committed...)
	n.cancelled = append([]int(nil), s.cancelled...)
	return &n
}

func (s *chmState) isCancelled(id int) bool {
	for _, c := range s.cancelled {
		if c == id {
			return true
		}
	}
	return false
}

type chanModel struct{ ctxid int }

func (m chanModel) apply(st linState, op *linOp) []linState {
	s := st.(*chmState)
	one := func(n *chmState) []linState { return []linState{n} }
	same := one(s)
	switch op.kind {
	case "Init":
		n := s.clone()
		for _, v := range op.args[1:] {
			n.src = append(n.src, v.(int))
		}
		return one(n)
	case "Send":
		n := s.clone()
		n.src = append(n.src, op.args[0].(int))
		return one(n)
	case "CloseSrc":
		n := s.clone()
		n.srcClosed = true
		return one(n)
	case "Cancel":
		n := s.clone()
		id := op.args[0].(int)
		n.cancelled = append(n.cancelled, id)
		if id == 1 { // the Channel's own context
			n.closed = true
		}
		return one(n)
	case "Get":
		ctx := op.args[0].(int)
		okRes := func(want int, check bool) []linState {
			if s.closed {
				return nil
			}
			n := s.clone()
			if s.rb > 0 {
				if check && s.buf[len(s.buf)-s.rb] != want {
					return nil
				}
				n.rb--
				return one(n)
			}
			if len(s.src) == 0 || (check && s.src[0] != want) {
				return nil
			}
			n.buf = append(n.buf, s.src[0])
			n.src = n.src[1:]
			return one(n)
		}
		if op.pending {
			return append(okRes(0, false), same...)
		}
		if errOf(op.res, 1) {
			if s.closed || (ctx != 0 && s.isCancelled(ctx)) {
				return same
			}
			return nil
		}
		return okRes(op.res[0].(int), true)
	case "Commit":
		p := len(s.buf) - s.rb
		okRes := func() []linState {
			if s.closed || p == 0 {
				return nil
			}
			n := s.clone()
			n.committed = append(n.committed, s.buf[:p]...)
			n.buf = n.buf[p:]
			return one(n)
		}
		if op.pending {
			return append(okRes(), same...)
		}
		if errOf(op.res, 0) {
			if s.closed || p == 0 {
				return same
			}
			return nil
		}
		return okRes()
	case "Rollback":
		p := len(s.buf) - s.rb
		okRes := func() []linState {
			if p == 0 {
				return nil
			}
			n := s.clone()
			n.rb = len(n.buf)
			return one(n)
		}
		if op.pending {
			return append(okRes(), same...)
		}
		if errOf(op.res, 0) {
			if p == 0 {
				return same
			}
			return nil
		}
		return okRes()
	case "Buffer":
		if op.pending {
			return same
		}
		got, _ := op.res[0].([]int)
		if len(got) != len(s.buf) {
			return nil
		}
		for i := range got {
			if got[i] != s.buf[i] {
				return nil
			}
		}
		return same
	case "Close":
		first := func() []linState {
			if s.claimed {
				return nil
			}
			n := s.clone()
			n.claimed, n.closed = true, true
			return one(n)
		}
		if op.pending {
			return append(first(), same...)
		}
		if errOf(op.res, 0) {
			if s.claimed {
				return same
			}
			return nil
		}
		return first()
	case "Drain":
		if op.pending {
			return same
		}
		got, _ := op.res[0].([]int)
		if len(got) != len(s.src) {
			return nil
		}
		for i := range got {
			if got[i] != s.src[i] {
				return nil
			}
		}
		return same
	}
	panic("chanModel: unknown op " + op.kind)
}

func (chanModel) internal(st linState) []linState {
	s := st.(*chmState)
	if s.closed && !s.claimed { // the cleanup goroutine's own Close call
		n := s.clone()
		n.claimed = true
		return []linState{n}
	}
	return nil
}

func channelCheck(r *vrt.Result) string {
	if r.Status == vrt.StSteps {
		return "step-horizon: execution exceeded the step horizon"
	}
	if len(r.Panics) > 0 {
		return fmt.Sprintf("panic: %s in T%s", r.Panics[0].Msg, r.Panics[0].Thread)
	}
	ops := opsFromEvents(r.Events)
	for _, o := range ops {
		if o.kind == "Get" && !o.pending && !errOf(o.res, 1) && o.res[0].(int) <= 0 {
			return fmt.Sprintf("zero-value: Get returned %v, which was never sent", o.res[0])
		}
	}
	// C12: once a Close has returned, every later Get / Commit returns an error
	var closedAt int64
	for _, o := range ops {
		if o.kind == "Close" && !o.pending && (closedAt == 0 || o.ret < closedAt) {
			closedAt = o.ret
		}
	}
	for _, o := range ops {
		if closedAt != 0 && o.call > closedAt && !o.pending && (o.kind == "Get" && !errOf(o.res, 1) || o.kind == "Commit" && !errOf(o.res, 0)) {
			return fmt.Sprintf("close-later-call: %s was called after Close had returned and did not fail", o)
		}
	}
	ok, why := linearize(chanModel{}, &chmState{}, ops)
	if !ok {
		return "no-linearization: " + why
	}
	if r.Status != vrt.StOK {
		return fmt.Sprintf("close-%s: a call never returned: %v", r.Status, r.Blocked)
	}
	atDone := -1
	for _, e := range r.Events {
		if e.Kind == "left-at-done" {
			atDone = e.Int(0)
		}
		if e.Kind == "left-at-end" && atDone >= 0 && e.Int(0) != atDone {
			return fmt.Sprintf("taken-after-done: the source held %d values when Done was observed closed and %d at the end", atDone, e.Int(0))
		}
		if e.Kind == "done-closed" && !e.Args[0].(bool) {
			return "close-done-open: Done() is not closed after Close returned"
		}
	}
	if len(r.Leaked) > 0 {
		return fmt.Sprintf("goroutine-leak: %v", r.Leaked)
	}
	_ = strings.Join
	return ""
}
