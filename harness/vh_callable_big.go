package bigbuff

// Functions at the boundary of reflect.FuncOf's capacity (128 inputs + outputs), for the
// long-list cases of F-callable (generated: n results 0..n-1).

var callableBigCalls int

func callableBig128() (int, int, int, int, int, int, int, int, int, int, int, int, int, int, int, int, int, int, int, int, int, int, int, int, int, int, int, int, int, int, int, int, int, int, int, int, int, int, int, int, int, int, int, int, int, int, int, int, int, int, int, int, int, int, int, int, int, int, int, int, int, int, int, int, int, int, int, int, int, int, int, int, int, int, int, int, int, int, int, int, int, int, int, int, int, int, int, int, int, int, int, int, int, int, int, int, int, int, int, int, int, int, int, int, int, int, int, int, int, int, int, int, int, int, int, int, int, int, int, int, int, int, int, int, int, int, int, int) {
	callableBigCalls++
	return 0, 1, 2, 3, 4, 5, 6, 7, 8, 9, 10, 11, 12, 13, 14, 15, 16, 17, 18, 19, 20, 21, 22, 23, 24, 25, 26, 27, 28, 29, 30, 31, 32, 33, 34, 35, 36, 37, 38, 39, 40, 41, 42, 43, 44, 45, 46, 47, 48, 49, 50, 51, 52, 53, 54, 55, 56, 57, 58, 59, 60, 61, 62, 63, 64, 65, 66, 67, 68, 69, 70, 71, 72, 73, 74, 75, 76, 77, 78, 79, 80, 81, 82, 83, 84, 85, 86, 87, 88, 89, 90, 91, 92, 93, 94, 95, 96, 97, 98, 99, 100, 101, 102, 103, 104, 105, 106, 107, 108, 109, 110, 111, 112, 113, 114, 115, 116, 117, 118, 119, 120, 121, 122, 123, 124, 125, 126, 127
}

func callableBig129() (int, int, int, int, int, int, int, int, int, int, int, int, int, int, int, int, int, int, int, int, int, int, int, int, int, int, int, int, int, int, int, int, int, int, int, int, int, int, int, int, int, int, int, int, int, int, int, int, int, int, int, int, int, int, int, int, int, int, int, int, int, int, int, int, int, int, int, int, int, int, int, int, int, int, int, int, int, int, int, int, int, int, int, int, int, int, int, int, int, int, int, int, int, int, int, int, int, int, int, int, int, int, int, int, int, int, int, int, int, int, int, int, int, int, int, int, int, int, int, int, int, int, int, int, int, int, int, int, int) {
	callableBigCalls++
	return 0, 1, 2, 3, 4, 5, 6, 7, 8, 9, 10, 11, 12, 13, 14, 15, 16, 17, 18, 19, 20, 21, 22, 23, 24, 25, 26, 27, 28, 29, 30, 31, 32, 33, 34, 35, 36, 37, 38, 39, 40, 41, 42, 43, 44, 45, 46, 47, 48, 49, 50, 51, 52, 53, 54, 55, 56, 57, 58, 59, 60, 61, 62, 63, 64, 65, 66, 67, 68, 69, 70, 71, 72, 73, 74, 75, 76, 77, 78, 79, 80, 81, 82, 83, 84, 85, 86, 87, 88, 89, 90, 91, 92, 93, 94, 95, 96, 97, 98, 99, 100, 101, 102, 103, 104, 105, 106, 107, 108, 109, 110, 111, 112, 113, 114, 115, 116, 117, 118, 119, 120, 121, 122, 123, 124, 125, 126, 127, 128
}
