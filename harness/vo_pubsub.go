package bigbuff

import (
	"fmt"
	"sort"
	"strings"

	"github.com/joeycumines/go-bigbuff/internal/v/vrt"
)

// pubsubCheck: C07 (termination, no panic, final count, instance still works) and the C06
// delivery predicates (signatures "deliver-..."). The delivery clauses (C06) are facts about the Sends that returned and are judged
// on every execution, also one that then deadlocks or panics (C07): both are reported, one per line.
func pubsubCheck(r *vrt.Result) string {
	base := baseCheck(r, true, true, true)
	if strings.HasPrefix(base, "step-horizon") {
		return base
	}
	m := pubsubClauses(r, base != "")
	switch {
	case base == "":
		return m
	case strings.HasPrefix(m, "deliver-"):
		return m + "\n" + base
	}
	return base
}

func pubsubClauses(r *vrt.Result, partial bool) string {
	type sub struct {
		id                  int
		subcall, sub        int64
		unsubcall, unsubret int64
		manual              bool
		recvd               []int
		recvAt, waitcallAt  map[int]int64
	}
	type send struct {
		m, n      int
		call, ret int64
	}
	subs := map[int]*sub{}
	get := func(id int) *sub {
		if subs[id] == nil {
			subs[id] = &sub{id: id, recvAt: map[int]int64{}, waitcallAt: map[int]int64{}}
		}
		return subs[id]
	}
	sends := map[int]*send{}
	var sendOrderBySender = map[string][]int{}
	finals := []int{}
	for _, e := range r.Events {
		switch e.Kind {
		case "subcall":
			get(e.Int(0)).subcall = e.Seq
			if e.Str(1) == "manual" {
				get(e.Int(0)).manual = true
			}
		case "sub":
			get(e.Int(0)).sub = e.Seq
		case "unsubcall":
			s := get(e.Int(0))
			if s.unsubcall == 0 {
				s.unsubcall = e.Seq
			}
		case "unsubret":
			get(e.Int(0)).unsubret = e.Seq
		case "recv":
			s := get(e.Int(0))
			v := e.Int(1)
			if _, dup := s.recvAt[v]; dup {
				return fmt.Sprintf("deliver-duplicate: subscription %d received message %d twice", s.id, v)
			}
			s.recvd = append(s.recvd, v)
			s.recvAt[v] = e.Seq
		case "waitcall":
			s := get(e.Int(0))
			s.manual = true
			s.waitcallAt[e.Int(1)] = e.Seq
		case "sendcall":
			sends[e.Int(0)] = &send{m: e.Int(0), call: e.Seq}
			sendOrderBySender[e.T] = append(sendOrderBySender[e.T], e.Int(0))
		case "sendret":
			s := sends[e.Int(0)]
			s.ret, s.n = e.Seq, e.Int(1)
		case "final-count":
			finals = append(finals, e.Int(0))
		}
	}
	if !partial {
		for _, f := range finals {
			if f != 0 {
				return fmt.Sprintf("final-count: subscriber count is %d after every subscription was withdrawn", f)
			}
		}
		if len(finals) != 2 {
			return "final-count: the driver did not reach its end"
		}
	}
	ids := make([]int, 0, len(sends))
	for m := range sends {
		ids = append(ids, m)
	}
	sort.Ints(ids)
	for _, m := range ids {
		s := sends[m]
		if s.ret == 0 {
			if partial {
				continue
			}
			return fmt.Sprintf("send-no-return: Send(%d) never returned", m)
		}
		got := 0
		for _, u := range subs {
			at, ok := u.recvAt[m]
			if ok {
				got++
				if u.subcall > s.ret {
					return fmt.Sprintf("deliver-after-return: subscription %d was made after Send(%d) had returned but received it", u.id, m)
				}
				if u.manual {
					if at > s.ret {
						return fmt.Sprintf("deliver-early-return: Send(%d) returned before subscription %d received it", m, u.id)
					}
					if w, ok := u.waitcallAt[m]; !ok || w > s.ret {
						return fmt.Sprintf("deliver-early-return: Send(%d) returned before subscription %d acknowledged it with Wait", m, u.id)
					}
				}
				continue
			}
			// standing subscription: established before the Send began, not withdrawn before it returned
			// (an iterator logs its receipt after its Wait, possibly after Send has returned: not judged
			// for iterators on an execution that was cut short; a manual subscriber logs it at once)
			if (!partial || u.manual) && u.sub != 0 && u.sub < s.call && (u.unsubcall == 0 || u.unsubcall > s.ret) {
				return fmt.Sprintf("deliver-missed: subscription %d stood from before Send(%d) began until after it returned but did not receive it", u.id, m)
			}
		}
		if got != s.n && (!partial || got > s.n) {
			return fmt.Sprintf("deliver-count: Send(%d) returned %d but %d subscriptions received it", m, s.n, got)
		}
		if m == 99 && s.n != 1 {
			return fmt.Sprintf("broken-after: a fresh subscriber did not receive the final Send (returned %d)", s.n)
		}
	}
	if partial {
		return ""
	}
	// one global order: some permutation of the messages, consistent with each sender's program
	// order and with real time (a Send that returned before another began), of which every
	// subscription's sequence is a contiguous run
	if ok := permute(ids, func(order []int) bool {
		pos := map[int]int{}
		for i, m := range order {
			pos[m] = i
		}
		for _, seq := range sendOrderBySender {
			for i := 1; i < len(seq); i++ {
				if pos[seq[i-1]] > pos[seq[i]] {
					return false
				}
			}
		}
		for _, a := range ids {
			for _, b := range ids {
				if a != b && sends[a].ret < sends[b].call && pos[a] > pos[b] {
					return false
				}
			}
		}
		for _, u := range subs {
			for i := 1; i < len(u.recvd); i++ {
				if pos[u.recvd[i]] != pos[u.recvd[i-1]]+1 {
					return false
				}
			}
		}
		return true
	}); !ok {
		desc := ""
		for _, u := range subs {
			desc += fmt.Sprintf(" sub%d=%v", u.id, u.recvd)
		}
		return "deliver-order: no single order of the messages explains what the subscriptions saw:" + desc
	}
	return ""
}

func permute(a []int, f func([]int) bool) bool {
	a = append([]int(nil), a...)
	var rec func(k int) bool
	rec = func(k int) bool {
		if k == len(a) {
			return f(a)
		}
		for i := k; i < len(a); i++ {
			a[k], a[i] = a[i], a[k]
			if rec(k + 1) {
				return true
			}
			a[k], a[i] = a[i], a[k]
		}
		return false
	}
	return rec(0)
}
