package bigbuff

import (
	"fmt"
	"reflect"

	"github.com/joeycumines/go-bigbuff/internal/v/vrt"
)

const callableTargetVariants = 14

func callableTargetName(tv int) string {
	return [...]string{"none", "correct", "wrong-elem-type", "untyped-nil", "typed-nil-ptr", "non-pointer", "too-few", "too-many",
		"slice-any", "slice-int", "slice-nil", "slice-non-pointer", "slice-ptr-to-non-slice", "aliased"}[tv]
}

func nilable(t reflect.Type) bool {
	switch t.Kind() {
	case reflect.Chan, reflect.Func, reflect.Interface, reflect.Map, reflect.Ptr, reflect.Slice, reflect.UnsafePointer:
		return true
	}
	return false
}

// callableParams: parameter types after variadic expansion to n arguments (nil: wrong length).
func callableParams(ft reflect.Type, n int) []reflect.Type {
	var in []reflect.Type
	for i := 0; i < ft.NumIn(); i++ {
		in = append(in, ft.In(i))
	}
	if ft.IsVariadic() {
		v := in[len(in)-1].Elem()
		in = in[:len(in)-1]
		if n < len(in) {
			return nil
		}
		for len(in) < n {
			in = append(in, v)
		}
		if in == nil {
			in = []reflect.Type{}
		}
		return in
	}
	if n != len(in) {
		return nil
	}
	if in == nil {
		in = []reflect.Type{}
	}
	return in
}

func callableArgsAccepted(ft reflect.Type, args []any) bool {
	in := callableParams(ft, len(args))
	if in == nil {
		return false
	}
	for i, a := range args {
		if a == nil {
			if !nilable(in[i]) {
				return false
			}
			continue
		}
		if !reflect.TypeOf(a).AssignableTo(in[i]) {
			return false
		}
	}
	return true
}

// callableDirect performs the direct call (arguments already known to be acceptable).
func callableDirect(fn any, args []any) []reflect.Value {
	ft := reflect.TypeOf(fn)
	in := callableParams(ft, len(args))
	vals := make([]reflect.Value, len(args))
	for i, a := range args {
		if a == nil {
			vals[i] = reflect.Zero(in[i])
		} else {
			vals[i] = reflect.ValueOf(a)
		}
	}
	// the recording function is called again here; the caller has already inspected the record
	return reflect.ValueOf(fn).Call(vals)
}

func sameValue(a, b reflect.Value) bool {
	if a.Kind() != b.Kind() {
		if a.Kind() == reflect.Interface && !a.IsNil() {
			return sameValue(a.Elem(), b)
		}
		if b.Kind() == reflect.Interface && !b.IsNil() {
			return sameValue(a, b.Elem())
		}
		if (a.Kind() == reflect.Interface && a.IsNil()) || (b.Kind() == reflect.Interface && b.IsNil()) {
			other := b
			if b.Kind() == reflect.Interface {
				other = a
			}
			return !other.IsValid()
		}
		return false
	}
	switch a.Kind() {
	case reflect.Func, reflect.Chan, reflect.Map, reflect.Ptr:
		return a.Pointer() == b.Pointer()
	case reflect.Interface:
		if a.IsNil() || b.IsNil() {
			return a.IsNil() == b.IsNil()
		}
		return sameValue(a.Elem(), b.Elem())
	}
	return reflect.DeepEqual(a.Interface(), b.Interface())
}

// callableCompareArgs: the recorded arguments are exactly the given ones (nil = zero value).
func callableCompareArgs(ft reflect.Type, args []any, got []any) string {
	in := callableParams(ft, len(args))
	var want []reflect.Value
	for i, a := range args {
		if a == nil {
			want = append(want, reflect.Zero(in[i]))
		} else {
			want = append(want, reflect.ValueOf(a))
		}
	}
	// the recording functions note variadic parameters as one slice
	var flat []reflect.Value
	fixed := ft.NumIn()
	if ft.IsVariadic() {
		fixed--
	}
	for i, g := range got {
		if ft.IsVariadic() && i == fixed {
			s := reflect.ValueOf(g)
			for k := 0; k < s.Len(); k++ {
				flat = append(flat, s.Index(k))
			}
			continue
		}
		if g == nil {
			flat = append(flat, reflect.Zero(ft.In(i)))
		} else {
			flat = append(flat, reflect.ValueOf(g))
		}
	}
	if len(flat) != len(want) {
		return fmt.Sprintf("received %d arguments, given %d", len(flat), len(want))
	}
	for i := range want {
		if !sameValue(flat[i], want[i]) {
			return fmt.Sprintf("argument %d differs", i)
		}
	}
	return ""
}

type callableTargetSet struct {
	ptrs     []reflect.Value // pointers handed to CallResults (valid ones only)
	sentinel []reflect.Value
	slice    reflect.Value // pointer handed to CallResultsSlice
	sliceLen int
	kind     string
}

func (t *callableTargetSet) untouched() string {
	for i, p := range t.ptrs {
		if p.IsValid() && p.Kind() == reflect.Ptr && !p.IsNil() && !sameValue(p.Elem(), t.sentinel[i]) {
			return fmt.Sprintf("target %d was modified", i)
		}
	}
	if t.slice.IsValid() && t.slice.Kind() == reflect.Ptr && !t.slice.IsNil() && t.slice.Elem().Kind() == reflect.Slice && t.slice.Elem().Len() != t.sliceLen {
		return "the slice target was modified"
	}
	return ""
}

func (t *callableTargetSet) check(want []reflect.Value) string {
	switch t.kind {
	case "none":
		return ""
	case "ptrs":
		for i, p := range t.ptrs {
			if !sameValue(p.Elem(), want[i]) {
				return fmt.Sprintf("result %d: got %v, a direct call returns %v", i, p.Elem(), want[i])
			}
		}
	case "aliased":
		// a direct call `x, x, rest... = f()` leaves the second result in x
		if !sameValue(t.ptrs[0].Elem(), want[1]) {
			return fmt.Sprintf("aliased targets hold %v, a direct call leaves %v (assignment is left to right)", t.ptrs[0].Elem(), want[1])
		}
		for i := 2; i < len(t.ptrs); i++ {
			if !sameValue(t.ptrs[i].Elem(), want[i]) {
				return fmt.Sprintf("result %d: got %v, a direct call returns %v", i, t.ptrs[i].Elem(), want[i])
			}
		}
	case "slice":
		s := t.slice.Elem()
		if s.Len() != t.sliceLen+len(want) {
			return fmt.Sprintf("slice target has %d elements, expected %d", s.Len(), t.sliceLen+len(want))
		}
		for i := range want {
			if !sameValue(s.Index(t.sliceLen+i), want[i]) {
				return fmt.Sprintf("slice element %d: got %v, a direct call returns %v", i, s.Index(t.sliceLen+i), want[i])
			}
		}
	}
	return ""
}

// callableTargets builds result-target variant tv for ft: the targets (for inspection), the
// CallOption (nil = none) and whether the specification accepts them.
func callableTargets(ft reflect.Type, tv int) (*callableTargetSet, CallOption, bool) {
	nout := ft.NumOut()
	t := &callableTargetSet{kind: "ptrs"}
	mk := func(i int) reflect.Value { // fresh pointer of the exact result type, pre-filled with the zero value
		p := reflect.New(ft.Out(i))
		return p
	}
	correct := func() []any {
		var out []any
		for i := 0; i < nout; i++ {
			p := mk(i)
			t.ptrs = append(t.ptrs, p)
			t.sentinel = append(t.sentinel, reflect.Zero(ft.Out(i)))
			out = append(out, p.Interface())
		}
		return out
	}
	switch tv {
	case 0:
		t.kind = "none"
		return t, nil, true
	case 1:
		return t, CallResults(correct()...), true
	case 2: // one wrong element type
		c := correct()
		if nout == 0 {
			return t, CallResults(c...), true
		}
		wrong := new(complex128)
		c[0] = wrong
		t.ptrs[0], t.sentinel[0] = reflect.ValueOf(wrong), reflect.ValueOf(complex128(0))
		return t, CallResults(c...), false
	case 3: // untyped nil target
		c := correct()
		if nout == 0 {
			return t, CallResults(nil), false
		}
		c[0] = nil
		t.ptrs[0] = reflect.Value{}
		return t, CallResults(c...), false
	case 4: // typed nil pointer
		c := correct()
		if nout == 0 {
			return t, CallResults((*int)(nil)), false
		}
		np := reflect.Zero(reflect.PointerTo(ft.Out(0)))
		c[0] = np.Interface()
		t.ptrs[0] = reflect.Value{}
		return t, CallResults(c...), false
	case 5: // non-pointer
		c := correct()
		if nout == 0 {
			return t, CallResults(5), false
		}
		c[0] = 5
		t.ptrs[0] = reflect.Value{}
		return t, CallResults(c...), false
	case 6: // too few
		c := correct()
		if nout == 0 {
			return t, CallResults(c...), true
		}
		return t, CallResults(c[:nout-1]...), false
	case 7: // too many
		c := correct()
		return t, CallResults(append(c, new(int))...), false
	case 8: // *[]any, with one element already present
		s := []any{"keep"}
		t.kind, t.slice, t.sliceLen = "slice", reflect.ValueOf(&s), 1
		return t, CallResultsSlice(&s), true
	case 9: // *[]int
		s := []int{9}
		t.kind, t.slice, t.sliceLen = "slice", reflect.ValueOf(&s), 1
		ok := true
		for i := 0; i < nout; i++ {
			if !ft.Out(i).AssignableTo(reflect.TypeOf(0)) {
				ok = false
			}
		}
		return t, CallResultsSlice(&s), ok
	case 10:
		t.kind = "slice"
		return t, CallResultsSlice(nil), false
	case 11:
		t.kind = "slice"
		return t, CallResultsSlice([]any{}), false
	case 12:
		t.kind = "slice"
		return t, CallResultsSlice(new(int)), false
	case 13: // the same variable addressed by the first two targets: like `x, x, ... = f()`, which assigns left to right
		c := correct()
		if nout < 2 || ft.Out(0) != ft.Out(1) {
			return t, CallResults(c...), true
		}
		c[1] = c[0]
		t.ptrs[1] = t.ptrs[0]
		t.kind = "aliased"
		return t, CallResults(c...), true
	}
	panic("bad variant")
}

func callableShow(args []any) string {
	s := "["
	for i, a := range args {
		if i > 0 {
			s += " "
		}
		if a == nil {
			s += "nil"
		} else {
			s += fmt.Sprintf("%T", a)
			if v := reflect.ValueOf(a); nilable(v.Type()) && v.IsNil() {
				s += "(nil)"
			}
		}
	}
	return s + "]"
}

func callableCheck(r *vrt.Result) string {
	if m := baseCheck(r, true, true, true); m != "" {
		return m
	}
	done := false
	for _, e := range r.Events {
		switch e.Kind {
		case "mismatch":
			m := e.Str(0)
			return m
		case "enumerated":
			done = true
		}
	}
	if !done {
		return "enum-incomplete: the enumeration did not finish"
	}
	return ""
}
