package bigbuff

import (
	"context"
	"fmt"
	"sync"
	"sync/atomic"
	"time"

	"github.com/joeycumines/go-bigbuff/internal/v/vrt"
)

// Program enumeration (DESIGN 0.8): instead of hand-picked drivers, EVERY small concurrent
// program - nThreads threads x opsPerThread operations, each operation an enumerated choice
// from the type's alphabet - is generated, and each program's schedules are explored within the
// bound and judged by the same oracle as the hand-written drivers.

// release lets the threads of a generated program run until they are all done or all stuck,
// then cancels the context their Gets use (a Get on an exhausted buffer is legitimately blocked).
func progRelease(done *atomic.Int32, n int, cancel func()) {
	for i := 0; i < 8 && int(done.Load()) < n; i++ {
		vrt.Yield()
	}
	cancel()
}

// bProg: Buffer with two consumers and one value already put.
func bProg(nThreads, opsPerThread int, cleaner func() Cleaner, nops int) func() {
	return func() {
		var cl Cleaner
		if cleaner != nil {
			cl = cleaner()
		}
		h := newBufH(0, cl)
		cs := []bufC{h.newC(), h.newC()}
		h.put(0, nil, 1)
		ctx, cancel := context.WithCancel(context.Background())
		defer cancel()
		prog := make([][]int, nThreads)
		for t := range prog {
			for k := 0; k < opsPerThread; k++ {
				prog[t] = append(prog[t], vrt.Choose(nops, 0))
			}
		}
		vrt.Log("program", fmt.Sprint(prog))
		var wg sync.WaitGroup
		var done atomic.Int32
		for t := range prog {
			wg.Add(1)
			go func() {
				defer wg.Done()
				defer done.Add(1)
				for k, op := range prog[t] {
					tok := 10*(t+1) + k
					switch op {
					case 0:
						h.put(0, nil, tok)
					case 1, 2:
						cs[op-1].get(1, ctx)
					case 3, 4:
						cs[op-3].commit()
					case 5, 6:
						cs[op-5].rollback()
					case 7:
						h.diff(cs[0])
					case 8:
						h.put(0, nil, tok, tok+100)
					case 9:
						h.slice()
					case 10:
						cs[1].close()
					case 11:
						h.newC()
					}
				}
			}()
		}
		progRelease(&done, nThreads, func() { cancelCtx(1, cancel) })
		// a Close waiting for uncommitted reads is released by resolving them (documented
		// precondition) - repeatedly, because a Get that was still in flight at the first Rollback
		// can leave a new uncommitted read behind, which the thread may then try to Close.
		cs[0].rollback()
		cs[1].rollback()
		for int(done.Load()) < nThreads {
			vrt.Yield()
			if int(done.Load()) < nThreads {
				cs[0].rollback()
				cs[1].rollback()
			}
		}
		wg.Wait()
		h.diff(cs[0])
		h.diff(cs[1])
		h.finish(cs...)
	}
}

// hProg: Channel over a source holding two values; a producer operation adds more.
func hProg(nThreads, opsPerThread int) func() {
	return func() {
		h := newChH(nil, 0, 1, 2)
		ctx, cancel := context.WithCancel(context.Background())
		defer cancel()
		prog := make([][]int, nThreads)
		for t := range prog {
			for k := 0; k < opsPerThread; k++ {
				prog[t] = append(prog[t], vrt.Choose(7, 0))
			}
		}
		vrt.Log("program", fmt.Sprint(prog))
		var wg sync.WaitGroup
		var done atomic.Int32
		for t := range prog {
			wg.Add(1)
			go func() {
				defer wg.Done()
				defer done.Add(1)
				for k, op := range prog[t] {
					switch op {
					case 0:
						h.get(2, ctx)
					case 1:
						h.commit()
					case 2:
						h.rollback()
					case 3:
						h.buffer()
					case 4:
						h.close()
					case 5:
						h.send(10*(t+1) + k)
					case 6: // the callers' context is cancelled by one of the threads, at any point of the others' calls
						id := int(vrt.Stamp())
						vrt.Log("c:Cancel", id, -1, 2)
						cancel()
						vrt.Log("r:Cancel", id)
					}
				}
			}()
		}
		progRelease(&done, nThreads, func() {
			id := int(vrt.Stamp())
			vrt.Log("c:Cancel", id, -1, 2)
			cancel()
			vrt.Log("r:Cancel", id)
		})
		wg.Wait()
		h.finish()
	}
}

// xProg: three callers on one key, each using an enumerated call style.
func xProg() {
	x := &xEnv{e: new(Exclusive)}
	ctx, cancel := context.WithCancel(context.Background())
	defer cancel()
	for i := 1; i <= 3; i++ {
		style := vrt.Choose(7, 0)
		name := fmt.Sprintf("w%d", i)
		x.wg.Add(1)
		switch style {
		case 0:
			go x.call(i, "k", name, 0)
		case 1:
			go x.async(i, "k", name)
		case 2:
			go x.start(i, "k", name, 0)
		case 3:
			go x.call(i, "k", name, 5*time.Millisecond)
		case 4:
			go x.start(i, "k", name, 5*time.Millisecond)
		case 5:
			go x.noResolve(i, "k", fmt.Sprintf("n%d", i))
		case 6:
			go x.rate(i, ctx, "k", name, 5*time.Millisecond)
		}
	}
	x.finish("k")
}

func init() {
	type bp struct {
		name         string
		threads, ops int
		nops         int
		cleaner      func() Cleaner
		policy       func(int, []int) int
		quick, thor  int
		props        []string
	}
	all := []string{"C01", "C02", "C03", "C05", "C11:race", "C12:goroutine-leak,close-"}
	for _, p := range []bp{
		{"B-prog-2x2", 2, 2, 12, nil, defaultPolicy, 0, 1, all},
		{"B-prog-2x2-fixed", 2, 2, 9, func() Cleaner { return FixedBufferCleaner(2, 1, nil) }, fixedPolicy(2, 1), 0, 1, all},
		{"B-prog-3x1", 3, 1, 12, nil, defaultPolicy, 1, 2, all},
		{"B-prog-2x3", 2, 3, 9, nil, defaultPolicy, -1, 0, all},
	} {
		vrt.Register(&vrt.Scenario{Name: p.name, Props: p.props, Quick: p.quick, Thorough: p.thor,
			Desc:  fmt.Sprintf("every program of %d threads x %d operations over {Put, Get(c1|c2), Commit, Rollback, Diff, Put(batch), Slice, Close(c2), NewConsumer} (first %d) on a Buffer with two consumers and one value, linearised against the model", p.threads, p.ops, p.nops),
			Heavy: true, Opts: vrt.Options{Delay: true}, Run: bProg(p.threads, p.ops, p.cleaner, p.nops), Check: bufferCheckSig(p.policy, "lost-wakeup")})
	}
	for _, p := range []struct {
		name         string
		threads, ops int
		q, t         int
	}{{"H-prog-2x2", 2, 2, 1, 2}, {"H-prog-3x1", 3, 1, 1, 2}, {"H-prog-2x3", 2, 3, 0, 1}} {
		vrt.Register(&vrt.Scenario{Name: p.name, Props: []string{"C13", "C11:race", "C12:goroutine-leak,close-"}, Quick: p.q, Thorough: p.t,
			Desc:  fmt.Sprintf("every program of %d threads x %d operations over {Get, Commit, Rollback, Buffer, Close, send to the source, cancel of the callers' context} on a Channel whose source holds two values", p.threads, p.ops),
			Heavy: true, Opts: vrt.Options{Delay: true, MaxTimerFires: 10}, Run: hProg(p.threads, p.ops), Check: channelCheck})
	}
	vrt.Register(&vrt.Scenario{Name: "X-prog", Props: []string{"C09:overlap,key-", "C10", "C11:race", "C12:goroutine-leak"}, Quick: 1, Thorough: 2,
		Desc:  "three callers on one key, each with an enumerated style out of {Call, CallAsync, Start, CallAfter(5ms), StartAfter(5ms), non-resolving work, rate-limited}",
		Heavy: true, Opts: vrt.Options{Delay: true}, Run: xProg, Check: exclusiveCheck})
}

// wProg: 3 callers with enumerated counts, plus a thread that calls Wait and Count concurrently.
func wProg() {
	var w Workers
	var wg sync.WaitGroup
	counts := []int{1 + vrt.Choose(3, 0), 1 + vrt.Choose(3, 0), 1 + vrt.Choose(3, 0)}
	vrt.Log("counts", fmt.Sprint(counts))
	for i, n := range counts {
		wg.Add(1)
		go func() {
			defer wg.Done()
			name := fmt.Sprintf("f%d", i)
			vrt.Log("call", i, n)
			r, err := w.Call(n, func() (interface{}, error) {
				vrt.Log("start", i)
				vrt.Point()
				vrt.Log("end", i)
				if i%2 == 1 {
					return nil, fmt.Errorf("err-%s", name)
				}
				return name, nil
			})
			rs, es := outcomeStr(r, err)
			vrt.Log("ret", i, rs, es)
		}()
	}
	wg.Add(2)
	go func() {
		defer wg.Done()
		vrt.Log("count-during", w.Count())
	}()
	go func() {
		defer wg.Done()
		// Wait racing the calls: it may return early (no worker yet) or late, but never while a
		// worker is running. The log entry is atomic with Wait's return under the scheduler (no
		// scheduling point lies between Wait's final unlock and the entry).
		w.Wait()
		vrt.Log("waitret")
	}()
	wg.Wait()
	vrt.Log("joined")
	w.Wait()
	vrt.Log("waited", w.Count())
}

// nProg: Notifier registry operations and publishes from concurrent threads. Every publish
// carries a unique token, channels are buffered, so each publish's set of recipients can be read
// off the channels afterwards and the history linearised against the registry model.
func nProg(nThreads, opsPerThread int) func() {
	return func() {
		var n Notifier
		chans := []chan int{make(chan int, 16), make(chan int, 16)}
		keys := []string{"k1", "k2"}
		n.Subscribe("k1", chans[0]) // one subscription exists from the start
		prog := make([][]int, nThreads)
		for t := range prog {
			for k := 0; k < opsPerThread; k++ {
				prog[t] = append(prog[t], vrt.Choose(10, 0))
			}
		}
		vrt.Log("program", fmt.Sprint(prog))
		var wg sync.WaitGroup
		for t := range prog {
			wg.Add(1)
			go func() {
				defer wg.Done()
				for k, op := range prog[t] {
					id := int(vrt.Stamp())
					if op >= 8 { // publish to k1 / k2
						key, token := op-8, 100*(t+1)+k
						vrt.Log("c:Pub", id, -1, key, token)
						n.Publish(keys[key], token)
						vrt.Log("r:Pub", id)
						continue
					}
					sub, key, ch := op < 4, (op/2)%2, op%2
					kind := "Unsub"
					if sub {
						kind = "Sub"
					}
					vrt.Log("c:"+kind, id, -1, key, ch)
					func() {
						defer func() {
							vrt.Log("r:"+kind, id, recover() != nil)
						}()
						if sub {
							n.Subscribe(keys[key], chans[ch])
						} else {
							n.Unsubscribe(keys[key], chans[ch])
						}
					}()
				}
			}()
		}
		wg.Wait()
		for ci, c := range chans {
			for len(c) > 0 {
				vrt.Log("delivered", ci, <-c)
			}
		}
	}
}

func init() {
	vrt.Register(&vrt.Scenario{Name: "W-prog", Props: []string{"C14", "C11:race", "C12:goroutine-leak"}, Quick: 3, Thorough: 4, Heavy: true,
		Desc: "three concurrent Workers.Call with every combination of counts from {1,2,3}, a concurrent Count and a concurrent Wait, then Wait",
		Opts: vrt.Options{Delay: true}, Run: wProg, Check: workersCheck})
	for _, p := range []struct {
		name         string
		threads, ops int
		q, t         int
	}{{"N-prog-2x2", 2, 2, 1, 2}, {"N-prog-3x1", 3, 1, 2, 3}} {
		vrt.Register(&vrt.Scenario{Name: p.name, Props: []string{"C15", "C11:race", "C12:goroutine-leak"}, Quick: p.q, Thorough: p.t, Heavy: true,
			Desc: fmt.Sprintf("every program of %d threads x %d operations over {Subscribe, Unsubscribe (2 keys x 2 channels), Publish(k1), Publish(k2)} on one Notifier, linearised against the registry model", p.threads, p.ops),
			Opts: vrt.Options{Delay: true}, Run: nProg(p.threads, p.ops), Check: notifierProgCheck})
	}
}

// sProg: ChanPubSub with two subscribers whose kind (manual / iterator), appetite (0-2 messages),
// start (before the sends or concurrently with them) and way of leaving (on their own, or told to
// quit / cancelled by a separate thread at any point) are enumerated, and one or two senders.
func sProg() {
	e := newPsEnv()
	var cancels []psCancel
	for id := 1; id <= 2; id++ {
		kind := vrt.Choose(2, 0)  // 0 manual, 1 iterator
		k := vrt.Choose(3, 0)     // messages it wants
		early := vrt.Choose(2, 0) // 1: a separate thread tells it to leave at any point
		await := vrt.Choose(2, 0) // 1: established before the senders start
		var sub chan struct{}
		if await == 1 {
			sub = make(chan struct{})
		}
		e.uwg.Add(1)
		if kind == 0 {
			q := (<-chan struct{})(e.quit)
			if early == 1 {
				qc := make(chan struct{})
				q = qc
				go func() {
					vrt.Log("quit", id)
					close(qc)
				}()
			}
			go e.manualSub(id, k, q, sub)
		} else {
			ctx, cancel := context.WithCancel(context.Background())
			cancels = append(cancels, psCancel{id, cancel})
			if early == 1 {
				go func() {
					vrt.Log("unsubcall", id)
					cancel()
				}()
			}
			go e.iterSub(id, ctx, k, sub)
		}
		if sub != nil {
			<-sub
		}
	}
	if vrt.Choose(2, 0) == 0 {
		e.swg.Add(1)
		go e.sender(1, 2)
	} else {
		e.swg.Add(2)
		go e.sender(1)
		go e.sender(2)
	}
	e.finish(cancels...)
}

func init() {
	vrt.Register(&vrt.Scenario{Name: "S-prog", Props: []string{"C06:deliver-", "C07", "C11:race", "C12:goroutine-leak"}, Quick: 1, Thorough: 2, Heavy: true,
		Desc: "two ChanPubSub subscribers with enumerated kind (manual/iterator), appetite (0-2), start (before/concurrent) and way of leaving (own accord / told at any point), one sender of two messages or two senders",
		Opts: vrt.Options{Delay: true}, Run: sProg, Check: pubsubCheck})
}
