package bigbuff

import (
	"fmt"
	"reflect"
	"sort"
	"unsafe"

	"github.com/joeycumines/go-bigbuff/internal/v/vrt"
)

func workersCheck(r *vrt.Result) string {
	if m := baseCheck(r, true, true, true); m != "" {
		return m
	}
	type fnrun struct{ start, end int64 }
	type call struct {
		n        int
		at, ret  int64
		res, err string
	}
	runs := map[int][]fnrun{}
	calls := map[int]*call{}
	waited := -1
	var waitrets []int64
	for _, e := range r.Events {
		switch e.Kind {
		case "call":
			calls[e.Int(0)] = &call{n: e.Int(1), at: e.Seq}
		case "start":
			runs[e.Int(0)] = append(runs[e.Int(0)], fnrun{start: e.Seq})
		case "end":
			rs := runs[e.Int(0)]
			rs[len(rs)-1].end = e.Seq
		case "ret":
			c := calls[e.Int(0)]
			c.ret, c.res, c.err = e.Seq, e.Str(1), e.Str(2)
		case "waited":
			waited = e.Int(0)
		case "waitret":
			waitrets = append(waitrets, e.Seq)
		}
	}
	for i, c := range calls {
		if len(runs[i]) != 1 {
			return fmt.Sprintf("not-exactly-once: the function of call %d ran %d times", i, len(runs[i]))
		}
		want, wantErr := fmt.Sprintf("f%d", i), ""
		if i%2 == 1 {
			want, wantErr = "<nil>", fmt.Sprintf("err-f%d", i)
		}
		if c.res != want || c.err != wantErr {
			return fmt.Sprintf("wrong-result: call %d returned (%s, %q), its function returned (%s, %q)", i, c.res, c.err, want, wantErr)
		}
		if runs[i][0].start < c.at || runs[i][0].end > c.ret {
			return fmt.Sprintf("outside-call: the function of call %d did not run inside its Call", i)
		}
	}
	// bounded concurrency: at every start, running <= the largest count requested so far
	for i, rs := range runs {
		t := rs[0].start
		running := 0
		for _, os := range runs {
			if os[0].start <= t && (os[0].end == 0 || os[0].end > t) {
				running++
			}
		}
		maxReq := 0
		for _, c := range calls {
			if c.at < t && c.n > maxReq {
				maxReq = c.n
			}
		}
		if running > maxReq {
			return fmt.Sprintf("over-concurrency: %d functions running when the function of call %d started, largest count requested so far %d", running, i, maxReq)
		}
	}
	for _, wr := range waitrets {
		for i, rs := range runs {
			if rs[0].start < wr && (rs[0].end == 0 || rs[0].end > wr) {
				return fmt.Sprintf("wait-returned-early: a concurrent Wait returned while the function of call %d was running", i)
			}
		}
	}
	if waited != 0 {
		return fmt.Sprintf("count-after-wait: Count() = %d after Wait returned", waited)
	}
	return ""
}

func workerCheck(r *vrt.Result) string {
	if m := baseCheck(r, true, true, true); m != "" {
		return m
	}
	type iv struct{ a, b int64 }
	inst := map[int]*iv{}
	holds := map[int]*iv{}
	heldClosed := map[int]int{}
	var saw []int64
	for _, e := range r.Events {
		switch e.Kind {
		case "fnstart":
			inst[e.Int(0)] = &iv{a: e.Seq}
		case "exit":
			inst[e.Int(0)].b = e.Seq
		case "sawstop":
			saw = append(saw, e.Seq)
		case "held":
			holds[e.Int(0)] = &iv{a: e.Seq}
			heldClosed[e.Int(0)] = e.Int(1)
		case "release":
			holds[e.Int(0)].b = e.Seq
			if e.Int(1) != heldClosed[e.Int(0)] {
				return fmt.Sprintf("stop-closed-while-held: a stop channel was closed between Do returning and done being called (hold %d)", e.Int(0))
			}
		}
	}
	for i, a := range inst {
		if a.b == 0 {
			return fmt.Sprintf("instance-not-stopped: instance %d never exited", i)
		}
		for j, b := range inst {
			if i < j && a.a < b.b && b.a < a.b {
				return fmt.Sprintf("two-instances: instances %d and %d were running at the same time", i, j)
			}
		}
	}
	for h, hv := range holds {
		for _, s := range saw {
			if s > hv.a && s < hv.b {
				return fmt.Sprintf("stop-closed-while-held: the function saw its stop channel closed while hold %d was outstanding", h)
			}
		}
	}
	if len(inst) == 0 {
		return "no-instance: no instance ever started"
	}
	return ""
}

// workerEarlyCheck: every instance's stop channel is eventually closed (its helper goroutine
// finishes) although the function itself returned early; nothing is left running.
func workerEarlyCheck(r *vrt.Result) string {
	if r.Status == vrt.StSteps {
		return "step-horizon: execution exceeded the step horizon"
	}
	if len(r.Panics) > 0 {
		return fmt.Sprintf("panic: %s in T%s", r.Panics[0].Msg, r.Panics[0].Thread)
	}
	starts, saw := 0, 0
	for _, e := range r.Events {
		switch e.Kind {
		case "fnstart":
			starts++
		case "helper-saw-stop":
			saw++
		}
	}
	if r.Status != vrt.StOK {
		return fmt.Sprintf("%s: a call never returned: %v", r.Status, r.Blocked)
	}
	// the last instance may still be held open by nobody: its stop must be closed too at quiescence
	if saw != starts || len(r.Leaked) > 0 {
		return fmt.Sprintf("stop-never-closed: %d instances started but only %d stop channels were closed (still waiting: %v)", starts, saw, r.Leaked)
	}
	return ""
}

// ---- W-lasso: starvation as a fair cycle ---------------------------------------------------------

type lasso struct {
	w     *Workers
	ids   map[unsafe.Pointer]int
	phase []int // per caller: 0 idle, 1 in Call, 2 function running, 3 function finished
}

func newLasso(w *Workers, callers int) *lasso {
	return &lasso{w: w, ids: map[unsafe.Pointer]int{}, phase: make([]int, callers)}
}

// funcID is the address of the closure object behind a func value: the Workers queue stores the
// caller's func value unchanged, so it names the caller of a queue entry.
func funcID(f func() (interface{}, error)) unsafe.Pointer {
	return *(*unsafe.Pointer)(unsafe.Pointer(&f))
}

func (l *lasso) register(id int, f func() (interface{}, error)) { l.ids[funcID(f)] = id }

// lassoKnownFields are the fields of Workers rendered explicitly below; any other field is
// rendered with %v when it is of a basic kind and makes the snapshot unusable otherwise (a
// cycle could then not be trusted to repeat).
var lassoKnownFields = map[string]bool{"mutex": true, "cond": true, "count": true, "target": true, "queue": true}

func (l *lasso) snap(taker int) {
	w := l.w
	xq := false
	q := make([]int, 0, len(w.queue))
	for _, it := range w.queue {
		id := -1
		if it != nil {
			if v, ok := l.ids[funcID(it.value)]; ok {
				id = v
			}
		}
		if id == 0 {
			xq = true
		}
		q = append(q, id)
	}
	if !xq {
		return
	}
	extra := ""
	rv := reflect.ValueOf(w).Elem()
	for i := 0; i < rv.NumField(); i++ {
		name := rv.Type().Field(i).Name
		if lassoKnownFields[name] {
			continue
		}
		switch f := rv.Field(i); f.Kind() {
		case reflect.Bool, reflect.Int, reflect.Int8, reflect.Int16, reflect.Int32, reflect.Int64,
			reflect.Uint, reflect.Uint8, reflect.Uint16, reflect.Uint32, reflect.Uint64, reflect.String:
			extra += fmt.Sprintf(" %s=%v", name, f)
		default:
			vrt.Log("snap-opaque", name)
			return
		}
	}
	var hs, lib []string
	steps := map[string]int{}
	blocked := map[string]bool{}
	for _, t := range vrt.Threads() {
		if t.Finished {
			continue
		}
		d := t.Op + "@" + t.Site
		if t.Harness {
			hs = append(hs, t.Name+":"+d)
		} else {
			lib = append(lib, d)
		}
		steps[t.Name] = t.Steps
		switch t.Op {
		case "chan.recv", "select", "cond.Wait(park)", "wg.Wait":
			blocked[t.Name] = true
		}
	}
	sort.Strings(lib)
	state := fmt.Sprintf("taker=%d queue=%v count=%d target=%d locked=%v%s phase=%v harness=%v library=%v",
		taker, q, w.count, w.target, vrt.MutexLocked(&w.mutex), extra, l.phase, hs, lib)
	vrt.Log("snap", state, steps, blocked)
}

func lassoCheck(r *vrt.Result) string {
	if m := baseCheck(r, true, true, true); m != "" {
		return m
	}
	type snap struct {
		seq     int64
		steps   map[string]int
		blocked map[string]bool
	}
	seen := map[string][]snap{}
	starts, rets, waited := map[int]int{}, map[int]int{}, -1
	for _, e := range r.Events {
		switch e.Kind {
		case "start":
			starts[e.Int(0)]++
		case "ret":
			rets[e.Int(0)]++
			if e.Str(1) != fmt.Sprint(e.Int(0)) || e.Str(2) != "<nil>" {
				return fmt.Sprintf("wrong-result: a call of caller %d returned (%s, %s)", e.Int(0), e.Str(1), e.Str(2))
			}
		case "waited":
			waited = e.Int(0)
		case "snap":
			state := e.Str(0)
			cur := snap{e.Seq, e.Args[1].(map[string]int), e.Args[2].(map[string]bool)}
			for _, old := range seen[state] {
				fair := true
				for name, n := range cur.steps {
					if o, ok := old.steps[name]; ok && o == n && !cur.blocked[name] {
						fair = false // a runnable thread did not move: not a fair cycle
					}
				}
				if fair {
					return fmt.Sprintf("starvation: the call of X is still queued and the state of the pool at event %d recurs at event %d with every live thread having moved (a cycle that a fair scheduler can repeat for ever): %s", old.seq, e.Seq, state)
				}
			}
			seen[state] = append(seen[state], cur)
		}
	}
	for id, n := range rets {
		if starts[id] != n {
			return fmt.Sprintf("not-exactly-once: caller %d made %d calls, its function ran %d times", id, n, starts[id])
		}
	}
	if waited != 0 {
		return fmt.Sprintf("count-after-wait: Count() = %d after Wait", waited)
	}
	return ""
}

func refusedCheck(r *vrt.Result) string {
	for _, e := range r.Events {
		if e.Kind == "not-refused" {
			return fmt.Sprintf("invalid-accepted: %s did not panic", e.Str(0))
		}
	}
	return ""
}

func workersMisuseCheck(r *vrt.Result) string {
	if m := workersCheck(r); m != "" {
		return m
	}
	return refusedCheck(r)
}

func workerMisuseCheck(r *vrt.Result) string {
	if m := workerCheck(r); m != "" {
		return m
	}
	return refusedCheck(r)
}
