package bigbuff

import (
	"fmt"

	"github.com/joeycumines/go-bigbuff/internal/v/vrt"
)

func workersCheck(r *vrt.Result) string {
	if m := baseCheck(r, true, true, true); m != "" {
		return m
	}
	type fnrun struct{ start, end int64 }
	type call struct {
		n        int
		at, ret  int64
		res, err string
	}
	runs := map[int][]fnrun{}
	calls := map[int]*call{}
	waited := -1
	var waitrets []int64
	for _, e := range r.Events {
		switch e.Kind {
		case "call":
			calls[e.Int(0)] = &call{n: e.Int(1), at: e.Seq}
		case "start":
			runs[e.Int(0)] = append(runs[e.Int(0)], fnrun{start: e.Seq})
		case "end":
			rs := runs[e.Int(0)]
			rs[len(rs)-1].end = e.Seq
		case "ret":
			c := calls[e.Int(0)]
			c.ret, c.res, c.err = e.Seq, e.Str(1), e.Str(2)
		case "waited":
			waited = e.Int(0)
		case "waitret":
			waitrets = append(waitrets, e.Seq)
		}
	}
	for i, c := range calls {
		if len(runs[i]) != 1 {
			return fmt.Sprintf("not-exactly-once: the function of call %d ran %d times", i, len(runs[i]))
		}
		want, wantErr := fmt.Sprintf("f%d", i), ""
		if i%2 == 1 {
			want, wantErr = "<nil>", fmt.Sprintf("err-f%d", i)
		}
		if c.res != want || c.err != wantErr {
			return fmt.Sprintf("wrong-result: call %d returned (%s, %q), its function returned (%s, %q)", i, c.res, c.err, want, wantErr)
		}
		if runs[i][0].start < c.at || runs[i][0].end > c.ret {
			return fmt.Sprintf("outside-call: the function of call %d did not run inside its Call", i)
		}
	}
	// bounded concurrency: at every start, running <= the largest count requested so far
	for i, rs := range runs {
		t := rs[0].start
		running := 0
		for _, os := range runs {
			if os[0].start <= t && (os[0].end == 0 || os[0].end > t) {
				running++
			}
		}
		maxReq := 0
		for _, c := range calls {
			if c.at < t && c.n > maxReq {
				maxReq = c.n
			}
		}
		if running > maxReq {
			return fmt.Sprintf("over-concurrency: %d functions running when the function of call %d started, largest count requested so far %d", running, i, maxReq)
		}
	}
	for _, wr := range waitrets {
		for i, rs := range runs {
			if rs[0].start < wr && (rs[0].end == 0 || rs[0].end > wr) {
				return fmt.Sprintf("wait-returned-early: a concurrent Wait returned while the function of call %d was running", i)
			}
		}
	}
	if waited != 0 {
		return fmt.Sprintf("count-after-wait: Count() = %d after Wait returned", waited)
	}
	return ""
}

func workerCheck(r *vrt.Result) string {
	if m := baseCheck(r, true, true, true); m != "" {
		return m
	}
	type iv struct{ a, b int64 }
	inst := map[int]*iv{}
	holds := map[int]*iv{}
	heldClosed := map[int]int{}
	var saw []int64
	for _, e := range r.Events {
		switch e.Kind {
		case "fnstart":
			inst[e.Int(0)] = &iv{a: e.Seq}
		case "exit":
			inst[e.Int(0)].b = e.Seq
		case "sawstop":
			saw = append(saw, e.Seq)
		case "held":
			holds[e.Int(0)] = &iv{a: e.Seq}
			heldClosed[e.Int(0)] = e.Int(1)
		case "release":
			holds[e.Int(0)].b = e.Seq
			if e.Int(1) != heldClosed[e.Int(0)] {
				return fmt.Sprintf("stop-closed-while-held: a stop channel was closed between Do returning and done being called (hold %d)", e.Int(0))
			}
		}
	}
	for i, a := range inst {
		if a.b == 0 {
			return fmt.Sprintf("instance-not-stopped: instance %d never exited", i)
		}
		for j, b := range inst {
			if i < j && a.a < b.b && b.a < a.b {
				return fmt.Sprintf("two-instances: instances %d and %d were running at the same time", i, j)
			}
		}
	}
	for h, hv := range holds {
		for _, s := range saw {
			if s > hv.a && s < hv.b {
				return fmt.Sprintf("stop-closed-while-held: the function saw its stop channel closed while hold %d was outstanding", h)
			}
		}
	}
	if len(inst) == 0 {
		return "no-instance: no instance ever started"
	}
	return ""
}

// workerEarlyCheck: every instance's stop channel is eventually closed (its helper goroutine
// finishes) although the function itself returned early; nothing is left running.
func workerEarlyCheck(r *vrt.Result) string {
	if r.Status == vrt.StSteps {
		return "step-horizon: execution exceeded the step horizon"
	}
	if len(r.Panics) > 0 {
		return fmt.Sprintf("panic: %s in T%s", r.Panics[0].Msg, r.Panics[0].Thread)
	}
	starts, saw := 0, 0
	for _, e := range r.Events {
		switch e.Kind {
		case "fnstart":
			starts++
		case "helper-saw-stop":
			saw++
		}
	}
	if r.Status != vrt.StOK {
		return fmt.Sprintf("%s: a call never returned: %v", r.Status, r.Blocked)
	}
	// the last instance may still be held open by nobody: its stop must be closed too at quiescence
	if saw != starts || len(r.Leaked) > 0 {
		return fmt.Sprintf("stop-never-closed: %d instances started but only %d stop channels were closed (still waiting: %v)", starts, saw, r.Leaked)
	}
	return ""
}
