package bigbuff

import (
	"errors"
	"fmt"
	"io"
	"reflect"
	"strings"

	"github.com/joeycumines/go-bigbuff/internal/v/vrt"
)

// C19 — Callable: every signature x argument list x result target of the stated domain, against
// an independently computed expectation (DESIGN A.6). No concurrency: exhaustive input enumeration.

type cStruct struct{ A int }

type cRec struct {
	calls int
	args  []any
}

func (r *cRec) note(a ...any) { r.calls++; r.args = a }

var cX = 7
var cErr = errors.New("an error")
var cFunc = func() {}
var cChan = make(chan int)
var cMap = map[string]int{"a": 1}
var cReader io.Reader = strings.NewReader("x")

func callableArgs() []any {
	return []any{nil, 0, "s", (*int)(nil), &cX, []int{1}, []int(nil), cMap, cFunc, cChan, cErr, cReader, cStruct{3}}
}

// signatures: each function records its arguments and returns values derived from them
func callableFuncs(rec *cRec) []any {
	return []any{
		func() { rec.note() },
		func(a int) int { rec.note(a); return a + 1 },
		func(a ...int) int { rec.note(a); return len(a) },
		func(a string, b ...any) string { rec.note(a, b); return fmt.Sprint(a, len(b)) },
		func(a any) any { rec.note(a); return a },
		func(a *int) *int { rec.note(a); return a },
		func(a []int) []int { rec.note(a); return a },
		func(a map[string]int) map[string]int { rec.note(a); return a },
		func(a func()) func() { rec.note(a); return a },
		func(a chan int) chan int { rec.note(a); return a },
		func(a error) error { rec.note(a); return a },
		func(a io.Reader) (int, error) { rec.note(a); return 5, cErr },
		func(a int, b string) (string, int) { rec.note(a, b); return b, a },
		func(a cStruct) cStruct { rec.note(a); return cStruct{a.A + 1} },
		func(a, b int) (int, int, bool) { rec.note(a, b); return a + 10, b + 20, true },
	}
}

func callableEnum() {
	rec := &cRec{}
	funcs := callableFuncs(rec)
	alphabet := callableArgs()
	n, bad := 0, 0
	report := func(format string, a ...any) {
		if bad < 6 {
			vrt.Log("mismatch", fmt.Sprintf(format, a...))
		}
		bad++
	}
	for fi, fn := range funcs {
		ft := reflect.TypeOf(fn)
		maxLen := ft.NumIn() + 1
		var lists [][]any
		var gen func(cur []any)
		gen = func(cur []any) {
			lists = append(lists, append([]any(nil), cur...))
			if len(cur) == maxLen {
				return
			}
			for _, a := range alphabet {
				gen(append(cur, a))
			}
		}
		gen(nil)
		for _, args := range lists {
			for tv := 0; tv < callableTargetVariants; tv++ {
				n++
				if msg := callableCase(fn, fi, rec, args, tv); msg != "" {
					report("%s", msg)
				}
			}
		}
	}
	// boundary of reflect.FuncOf's capacity (128 values): long variadic argument lists, and functions
	// with 128 / 129 results, every target variant
	for _, total := range []int{127, 128, 129, 130, 300} {
		for _, fi := range []int{2, 3} {
			var args []any
			if fi == 3 {
				args = append(args, "s")
			}
			for len(args) < total {
				args = append(args, len(args))
			}
			for tv := 0; tv < callableTargetVariants; tv++ {
				n++
				if msg := callableCase(funcs[fi], fi, rec, args, tv); msg != "" {
					report("%s", msg)
				}
			}
		}
	}
	for bi, fn := range []any{callableBig128, callableBig129} {
		for tv := 0; tv < callableTargetVariants; tv++ {
			n++
			if msg := callableCase(fn, 100+bi, &cRec{}, nil, tv); msg != "" {
				report("%s", msg)
			}
		}
	}
	vrt.AddEvaluations(n)
	vrt.Log("enumerated", n, bad)
}

// callableCase runs one Call and compares with the expectation; "" = as specified.
func callableCase(fn any, fi int, rec *cRec, args []any, tv int) (msg string) {
	ft := reflect.TypeOf(fn)
	desc := func() string {
		return fmt.Sprintf("f%d %v args=%s targets=%s", fi, ft, callableShow(args), callableTargetName(tv))
	}
	rec.calls, rec.args, callableBigCalls = 0, nil, 0
	untracked := fi >= 100 // the boundary functions count their calls in callableBigCalls and take no arguments
	targets, opt, resOK := callableTargets(ft, tv)
	argsOK := callableArgsAccepted(ft, args)
	var err error
	panicked := any(nil)
	func() {
		defer func() { panicked = recover() }()
		opts := []CallOption{CallArgs(args...)}
		if opt != nil {
			opts = append(opts, opt)
		}
		err = Call(NewCallable(fn), opts...)
	}()
	if panicked != nil {
		return fmt.Sprintf("panic: %s: %v", desc(), panicked)
	}
	if untracked {
		rec.calls = callableBigCalls
	}
	// More than 128 values cannot be passed through reflect.FuncOf: a descriptive refusal (without
	// calling and without touching the targets) is then as acceptable as a correct call.
	overCapacity := len(args) > 128 || ft.NumOut() > 128
	if argsOK && resOK && !(overCapacity && err != nil) {
		if err != nil {
			return fmt.Sprintf("rejected-valid: %s: %v", desc(), err)
		}
		if rec.calls != 1 {
			return fmt.Sprintf("not-called-once: %s: called %d times", desc(), rec.calls)
		}
		want := callableDirect(fn, args)
		if m := callableCompareArgs(ft, args, rec.args); m != "" && !untracked {
			return fmt.Sprintf("wrong-arguments: %s: %s", desc(), m)
		}
		if m := targets.check(want); m != "" {
			return fmt.Sprintf("wrong-results: %s: %s", desc(), m)
		}
		return ""
	}
	if err == nil {
		return fmt.Sprintf("accepted-invalid: %s (args acceptable=%v, targets acceptable=%v)", desc(), argsOK, resOK)
	}
	if rec.calls != 0 {
		return fmt.Sprintf("called-despite-error: %s", desc())
	}
	if m := targets.untouched(); m != "" {
		return fmt.Sprintf("targets-touched: %s: %s", desc(), m)
	}
	return ""
}

func init() {
	vrt.Register(&vrt.Scenario{Name: "F-callable", Props: []string{"C19"}, Quick: 0, Thorough: 0,
		Desc: "Call(NewCallable(f), CallArgs(...), CallResults/CallResultsSlice(...)) for 14 signatures x every argument list of length <= arity+1 over 13 values (incl. untyped nil, typed nil pointer) x 13 result-target variants, against independently computed acceptability and a direct call",
		Run:  callableEnum, Check: callableCheck})
}
