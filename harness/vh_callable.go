package bigbuff

import (
	"errors"
	"fmt"
	"io"
	"reflect"
	"strings"

	"github.com/joeycumines/go-bigbuff/internal/v/vrt"
)

// C19 — Callable: every signature x argument list x result target of the stated domain, against
// an independently computed expectation (DESIGN A.6). No concurrency: exhaustive input enumeration.

type cStruct struct{ A int }

type cRec struct {
	calls int
	args  []any
}

func (r *cRec) note(a ...any) { r.calls++; r.args = a }

var cX = 7
var cErr = errors.New("an error")
var cFunc = func() {}
var cChan = make(chan int)
var cMap = map[string]int{"a": 1}
var cReader io.Reader = strings.NewReader("x")

func callableArgs() []any {
	return []any{nil, 0, "s", (*int)(nil), &cX, []int{1}, []int(nil), cMap, cFunc, cChan, cErr, cReader, cStruct{3}}
}

// signatures: each function records its arguments and returns values derived from them
func callableFuncs(rec *cRec) []any {
	return []any{
		func() { rec.note() },
		func(a int) int { rec.note(a); return a + 1 },
		func(a ...int) int { rec.note(a); return len(a) },
		func(a string, b ...any) string { rec.note(a, b); return fmt.Sprint(a, len(b)) },
		func(a any) any { rec.note(a); return a },
		func(a *int) *int { rec.note(a); return a },
		func(a []int) []int { rec.note(a); return a },
		func(a map[string]int) map[string]int { rec.note(a); return a },
		func(a func()) func() { rec.note(a); return a },
		func(a chan int) chan int { rec.note(a); return a },
		func(a error) error { rec.note(a); return a },
		func(a io.Reader) (int, error) { rec.note(a); return 5, cErr },
		func(a int, b string) (string, int) { rec.note(a, b); return b, a },
		func(a cStruct) cStruct { rec.note(a); return cStruct{a.A + 1} },
		func(a, b int) (int, int, bool) { rec.note(a, b); return a + 10, b + 20, true },
	}
}

func callableEnum() {
	rec := &cRec{}
	funcs := callableFuncs(rec)
	alphabet := callableArgs()
	n, bad := 0, 0
	report := func(format string, a ...any) {
		if bad < 6 {
			vrt.Log("mismatch", fmt.Sprintf(format, a...))
		}
		bad++
	}
	for fi, fn := range funcs {
		ft := reflect.TypeOf(fn)
		maxLen := ft.NumIn() + 1
		var lists [][]any
		var gen func(cur []any)
		gen = func(cur []any) {
			lists = append(lists, append([]any(nil), cur...))
			if len(cur) == maxLen {
				return
			}
			for _, a := range alphabet {
				gen(append(cur, a))
			}
		}
		gen(nil)
		for _, args := range lists {
			for tv := 0; tv < callableTargetVariants; tv++ {
				for mode := 0; mode < 3; mode++ {
					// omitting CallArgs is "no arguments": only in the stated domain (Call WITH an
					// argument list) where the empty list is a valid argument list of fn
					if mode == 2 && (len(args) != 0 || !callableArgsAccepted(ft, args)) {
						continue
					}
					n++
					if msg := callableCase(fn, fi, rec, args, tv, mode); msg != "" {
						report("%s", msg)
					}
				}
			}
		}
	}
	// boundary of reflect.FuncOf's capacity (128 values): long variadic argument lists, and functions
	// with 128 / 129 results, every target variant
	for _, total := range []int{127, 128, 129, 130, 300} {
		for _, fi := range []int{2, 3} {
			var args []any
			if fi == 3 {
				args = append(args, "s")
			}
			for len(args) < total {
				args = append(args, len(args))
			}
			for tv := 0; tv < callableTargetVariants; tv++ {
				n++
				if msg := callableCase(funcs[fi], fi, rec, args, tv, tv%2); msg != "" {
					report("%s", msg)
				}
			}
		}
	}
	for bi, fn := range []any{callableBig128, callableBig129} {
		for tv := 0; tv < callableTargetVariants; tv++ {
			n++
			if msg := callableCase(fn, 100+bi, &cRec{}, nil, tv, tv%3); msg != "" {
				report("%s", msg)
			}
		}
	}
	// the slice passed to CallArgs is changed between building the option and the Call (one position,
	// every value of the alphabet): the call must see all-old or all-new arguments, or be refused
	for fi, fn := range funcs {
		ft := reflect.TypeOf(fn)
		maxLen := ft.NumIn()
		if ft.IsVariadic() {
			maxLen++
		}
		var lists [][]any
		var gen func(cur []any)
		gen = func(cur []any) {
			if len(cur) > 0 {
				lists = append(lists, append([]any(nil), cur...))
			}
			if len(cur) == maxLen {
				return
			}
			for _, a := range alphabet {
				gen(append(cur, a))
			}
		}
		gen(nil)
		for _, old := range lists {
			if !callableArgsAccepted(ft, old) && len(old) > 1 {
				continue // keep the sweep small: unacceptable starting lists only for one-element lists
			}
			for pos := range old {
				for _, nv := range alphabet {
					n++
					if msg := callableMutCase(fn, fi, rec, old, pos, nv); msg != "" {
						report("%s", msg)
					}
				}
			}
		}
	}
	// "only a panic raised by the called function itself propagates": a function that panics with
	// each of a list of values (error, runtime error, reflect's own panic types, string, struct,
	// nil pointer ...) x with / without a results option: the SAME value must come out of Call
	for pi, pv := range callablePanicValues() {
		for _, withResults := range []bool{false, true} {
			n++
			calls := 0
			fn := func(a int) int { calls++; panic(pv) }
			var out int
			opts := []CallOption{CallArgs(pi)}
			if withResults {
				opts = append(opts, CallResults(&out))
			}
			var got any
			var err error
			returned := false
			func() {
				defer func() { got = recover() }()
				err = Call(NewCallable(fn), opts...)
				returned = true
			}()
			switch {
			case returned:
				report("panic-swallowed: the called function panicked with %T (%v) but Call returned %v", pv, pv, err)
			case calls != 1:
				report("not-called-once: panicking function called %d times", calls)
			case !callableSamePanic(got, pv):
				report("panic-changed: the called function panicked with %T (%v), Call panicked with %T (%v)", pv, pv, got, got)
			case out != 0:
				report("targets-touched: result target written although the function panicked")
			}
		}
	}
	// a refused Call followed by a Call that omits an option kind: nothing of the first may be
	// visible in the second (state kept between calls), for every (refused, next) pair
	n += callablePairs(funcs, rec, report)
	vrt.AddEvaluations(n)
	vrt.Log("enumerated", n, bad)
}

// callableCase runs one Call and compares with the expectation; "" = as specified.
// mode 0: options (CallArgs, results option); 1: (results option, CallArgs); 2: CallArgs omitted (empty lists only).
func callableCase(fn any, fi int, rec *cRec, args []any, tv int, mode int) (msg string) {
	ft := reflect.TypeOf(fn)
	desc := func() string {
		return fmt.Sprintf("f%d %v args=%s targets=%s options=%s", fi, ft, callableShow(args), callableTargetName(tv),
			[...]string{"args,results", "results,args", "results only"}[mode])
	}
	rec.calls, rec.args, callableBigCalls = 0, nil, 0
	untracked := fi >= 100 // the boundary functions count their calls in callableBigCalls and take no arguments
	targets, opt, resOK := callableTargets(ft, tv)
	argsOK := callableArgsAccepted(ft, args)
	var err error
	panicked := any(nil)
	func() {
		defer func() { panicked = recover() }()
		var opts []CallOption
		if mode == 1 && opt != nil {
			opts = append(opts, opt)
		}
		if mode != 2 {
			opts = append(opts, CallArgs(args...))
		}
		if mode != 1 && opt != nil {
			opts = append(opts, opt)
		}
		err = Call(NewCallable(fn), opts...)
	}()
	if panicked != nil {
		return fmt.Sprintf("panic: %s: %v", desc(), panicked)
	}
	if untracked {
		rec.calls = callableBigCalls
	}
	// More than 128 values cannot be passed through reflect.FuncOf: a descriptive refusal (without
	// calling and without touching the targets) is then as acceptable as a correct call.
	overCapacity := len(args) > 128 || ft.NumOut() > 128
	if argsOK && resOK && !(overCapacity && err != nil) {
		if err != nil {
			return fmt.Sprintf("rejected-valid: %s: %v", desc(), err)
		}
		if rec.calls != 1 {
			return fmt.Sprintf("not-called-once: %s: called %d times", desc(), rec.calls)
		}
		want := callableDirect(fn, args)
		if m := callableCompareArgs(ft, args, rec.args); m != "" && !untracked {
			return fmt.Sprintf("wrong-arguments: %s: %s", desc(), m)
		}
		if m := targets.check(want); m != "" {
			return fmt.Sprintf("wrong-results: %s: %s", desc(), m)
		}
		return ""
	}
	if err == nil {
		return fmt.Sprintf("accepted-invalid: %s (args acceptable=%v, targets acceptable=%v)", desc(), argsOK, resOK)
	}
	if rec.calls != 0 {
		return fmt.Sprintf("called-despite-error: %s", desc())
	}
	if m := targets.untouched(); m != "" {
		return fmt.Sprintf("targets-touched: %s: %s", desc(), m)
	}
	return ""
}

// callableMutCase: opt := CallArgs(buf...); buf[pos] = nv; Call(fn, opt, CallResults(correct targets)).
func callableMutCase(fn any, fi int, rec *cRec, old []any, pos int, nv any) string {
	ft := reflect.TypeOf(fn)
	buf := append([]any(nil), old...)
	cur := append([]any(nil), old...)
	cur[pos] = nv
	desc := func() string {
		return fmt.Sprintf("f%d %v CallArgs(%s...) then element %d replaced by %s before Call", fi, ft, callableShow(old), pos, callableShow([]any{nv}))
	}
	rec.calls, rec.args = 0, nil
	targets, opt, _ := callableTargets(ft, 1)
	oldOK, newOK := callableArgsAccepted(ft, old), callableArgsAccepted(ft, cur)
	var err error
	panicked := any(nil)
	func() {
		defer func() { panicked = recover() }()
		a := CallArgs(buf...)
		buf[pos] = nv
		opts := []CallOption{a}
		if opt != nil {
			opts = append(opts, opt)
		}
		err = Call(NewCallable(fn), opts...)
	}()
	if panicked != nil {
		return fmt.Sprintf("panic: %s: %v", desc(), panicked)
	}
	if err != nil {
		if oldOK && newOK {
			return fmt.Sprintf("rejected-valid: %s: %v", desc(), err)
		}
		if rec.calls != 0 {
			return fmt.Sprintf("called-despite-error: %s", desc())
		}
		if m := targets.untouched(); m != "" {
			return fmt.Sprintf("targets-touched: %s: %s", desc(), m)
		}
		return ""
	}
	if rec.calls != 1 {
		return fmt.Sprintf("not-called-once: %s: called %d times", desc(), rec.calls)
	}
	got := rec.args
	for _, cand := range [][]any{cur, old} {
		ok := callableArgsAccepted(ft, cand)
		if ok && callableCompareArgs(ft, cand, got) == "" {
			if m := targets.check(callableDirect(fn, cand)); m != "" {
				return fmt.Sprintf("wrong-results: %s: %s", desc(), m)
			}
			return ""
		}
	}
	if !oldOK && !newOK {
		return fmt.Sprintf("accepted-invalid: %s", desc())
	}
	return fmt.Sprintf("wrong-arguments: %s: called with %s, neither the list given to CallArgs nor the list at the time of Call", desc(), callableShow(got))
}

type callablePanicStruct struct{ N int }

func callablePanicValues() []any {
	var nilMap map[string]int
	runtimeErr := func() (r any) {
		defer func() { r = recover() }()
		nilMap["x"] = 1
		return nil
	}()
	reflectValueErr := func() (r any) {
		defer func() { r = recover() }()
		reflect.ValueOf(1).Len()
		return nil
	}()
	reflectStringPanic := func() (r any) {
		defer func() { r = recover() }()
		reflect.ValueOf(func(int) {}).Call(nil)
		return nil
	}()
	return []any{"a string", cErr, fmt.Errorf("wrapped: %w", cErr), runtimeErr, reflectValueErr, reflectStringPanic,
		callablePanicStruct{7}, &callablePanicStruct{8}, 42, (*int)(nil), FatalError(cErr)}
}

func callableSamePanic(got, want any) bool {
	if got == nil || want == nil {
		return got == nil && want == nil
	}
	if reflect.TypeOf(got) != reflect.TypeOf(want) {
		return false
	}
	if reflect.TypeOf(got).Comparable() {
		return got == want
	}
	return reflect.DeepEqual(got, want)
}

type callableNotFunc struct{}

func (callableNotFunc) Type() reflect.Type           { return reflect.TypeOf(0) }
func (callableNotFunc) Call(args, results any) error { return errors.New("not reached") }

// callablePairs: every refused Call (an accepted option followed by a refused one, or a caller that
// is not a func) followed by every probe that omits options; returns the number of pairs.
func callablePairs(funcs []any, rec *cRec, report func(string, ...any)) int {
	type refusal struct {
		name string
		run  func() (error, func() string)
	}
	intTarget := func() (*int, func() string) {
		x := new(int)
		return x, func() string {
			if *x != 0 {
				return fmt.Sprintf("a target of the refused call now holds %d", *x)
			}
			return ""
		}
	}
	refusals := []refusal{
		{"CallResults(ok), CallArgs(bad)", func() (error, func() string) {
			x, chk := intTarget()
			return Call(NewCallable(funcs[1]), CallResults(x), CallArgs("s")), chk
		}},
		{"CallArgs(ok), CallResults(bad)", func() (error, func() string) {
			return Call(NewCallable(funcs[1]), CallArgs(41), CallResults("not a pointer")), func() string { return "" }
		}},
		{"CallResultsSlice(ok), CallArgs(bad)", func() (error, func() string) {
			var xs []int
			return Call(NewCallable(funcs[1]), CallResultsSlice(&xs), CallArgs(nil)), func() string {
				if len(xs) != 0 {
					return fmt.Sprintf("the slice target of the refused call now holds %v", xs)
				}
				return ""
			}
		}},
		{"CallArgs(ok), CallResults(ok), caller whose Type is not a func", func() (error, func() string) {
			x, chk := intTarget()
			return Call(callableNotFunc{}, CallArgs(1), CallResults(x)), chk
		}},
		{"CallArgs(7,8,9) on a variadic, CallResults(too many)", func() (error, func() string) {
			x, chk := intTarget()
			return Call(NewCallable(funcs[2]), CallArgs(7, 8, 9), CallResults(x, x)), chk
		}},
	}
	type probe struct {
		fi   int
		args []any
		tv   int
		mode int
	}
	probes := []probe{
		{0, nil, 0, 2},         // func(): no option at all
		{2, nil, 0, 2},         // func(...int): no option at all
		{2, nil, 1, 2},         // func(...int): results only
		{1, []any{3}, 0, 0},    // func(int) int: args only
		{2, []any{1, 2}, 0, 0}, // func(...int) int: args only
		{12, []any{1, "x"}, 1, 1},
	}
	n := 0
	for _, r := range refusals {
		for _, p := range probes {
			n++
			panicked := any(nil)
			var err error
			var chk func() string
			func() {
				defer func() { panicked = recover() }()
				err, chk = r.run()
			}()
			if panicked != nil {
				report("panic: refused call [%s]: %v", r.name, panicked)
				continue
			}
			if err == nil {
				report("accepted-invalid: [%s] returned nil", r.name)
				continue
			}
			if msg := callableCase(funcs[p.fi], p.fi, rec, p.args, p.tv, p.mode); msg != "" {
				report("after-refusal: after the refused call [%s]: %s", r.name, msg)
				continue
			}
			if m := chk(); m != "" {
				report("after-refusal: after the refused call [%s] and a later call: %s", r.name, m)
			}
		}
	}
	return n
}

func init() {
	vrt.Register(&vrt.Scenario{Name: "F-callable", Props: []string{"C19"}, Quick: 0, Thorough: 0,
		Desc: "Call(NewCallable(f), CallArgs(...), CallResults/CallResultsSlice(...)) for 15 signatures x every argument list of length <= arity+1 over 13 values (incl. untyped nil, typed nil pointer) x 14 result-target variants x option order / omission, against independently computed acceptability and a direct call; the capacity boundary of reflect.FuncOf (127-300 values); the CallArgs slice changed between building the option and the Call; every (refused call, later call) pair",
		Run:  callableEnum, Check: callableCheck})
}
