package bigbuff

import (
	"fmt"

	"github.com/joeycumines/go-bigbuff/internal/v/vrt"
)

func notifierPubCheck(r *vrt.Result) string {
	if r.Status == vrt.StSteps {
		return "step-horizon: execution exceeded the step horizon"
	}
	kind := ""
	got := map[string][]string{}
	var pubcall, pubret, pubCancelCall int64
	subCancelCall, subCancelRet := map[int]int64{}, map[int]int64{}
	panicked := ""
	for _, e := range r.Events {
		switch e.Kind {
		case "value":
			kind = e.Str(0)
		case "recv":
			got[e.Str(0)] = append(got[e.Str(0)], e.Str(1))
		case "pubcall":
			pubcall = e.Seq
		case "pubret":
			pubret = e.Seq
		case "subcancel-call":
			subCancelCall[e.Int(0)] = e.Seq
		case "subcancel-ret":
			subCancelRet[e.Int(0)] = e.Seq
		case "pubcancel-call":
			pubCancelCall = e.Seq
		case "publish-panic":
			panicked = e.Str(0)
		}
	}
	if panicked != "" {
		if kind == "nil" {
			return "publish-nil-panic: Publish(key, nil) panicked: " + panicked
		}
		return "publish-panic: " + panicked
	}
	if len(r.Panics) > 0 {
		return fmt.Sprintf("panic: %s in T%s", r.Panics[0].Msg, r.Panics[0].Thread)
	}
	if r.Status != vrt.StOK {
		return fmt.Sprintf("%s: a call never returned: %v", r.Status, r.Blocked)
	}
	if pubret == 0 {
		return "publish-no-return: Publish never returned"
	}
	// eligibility by value kind
	want := map[string]string{}
	switch kind {
	case "int":
		want["int"], want["any"] = "1", "1"
	case "string":
		want["any"], want["str"] = "s", "s"
	case "nil":
		want["any"], want["ptr"], want["fn"] = "<nil>", "true", "false"
	case "cancelfunc":
		want["fn"] = "true"
		want["any"] = "*" // a func value: only its presence is compared
	}
	ctxOf := map[string]int{"any": 1, "str": 2}
	pubCancelled := pubCancelCall != 0 // cancelled at some point: every delivery becomes optional
	for _, name := range []string{"int", "any", "str", "ptr", "fn", "other"} {
		g := got[name]
		w, eligible := want[name]
		if len(g) > 1 {
			return fmt.Sprintf("delivered-twice: subscription %q received %v from one publish", name, g)
		}
		if !eligible {
			if len(g) != 0 {
				return fmt.Sprintf("delivered-to-ineligible: subscription %q (other key or incompatible element type) received %v", name, g)
			}
			continue
		}
		if len(g) == 1 && w != "*" && g[0] != w {
			return fmt.Sprintf("wrong-value: subscription %q received %v, published %s", name, g, w)
		}
		optional := pubCancelled
		if c := ctxOf[name]; c != 0 && subCancelCall[c] != 0 {
			if subCancelRet[c] != 0 && subCancelRet[c] < pubcall {
				// its context was cancelled before the publish began: not eligible
				if len(g) != 0 {
					return fmt.Sprintf("delivered-to-cancelled: subscription %q, whose context was cancelled before the publish, received %v", name, g)
				}
				continue
			}
			optional = true
		}
		if len(g) == 0 && !optional {
			return fmt.Sprintf("not-delivered: eligible subscription %q received nothing although Publish returned and neither its context nor the publish context was cancelled", name)
		}
	}
	if len(r.Leaked) > 0 {
		return fmt.Sprintf("goroutine-leak: %v", r.Leaked)
	}
	return ""
}

func notifierRegCheck(r *vrt.Result) string {
	if m := baseCheck(r, true, true, true); m != "" {
		return m
	}
	reg := map[[2]int]bool{} // (key index, chan index)
	keyIdx := map[string]int{"k1": 0, "k2": 1}
	var hist []string
	seen := map[[2]int]int{}
	for _, e := range r.Events {
		switch e.Kind {
		case "op", "op-panic":
			sub, k, c := e.Args[0].(bool), keyIdx[e.Str(1)], e.Int(2)
			panicked := e.Kind == "op-panic"
			name := map[bool]string{true: "Subscribe", false: "Unsubscribe"}[sub]
			hist = append(hist, fmt.Sprintf("%s(%s,c%d)%s", name, e.Str(1), c, map[bool]string{true: "!", false: ""}[panicked]))
			key := [2]int{k, c}
			if sub {
				if reg[key] != panicked {
					return fmt.Sprintf("registry-panic: duplicate Subscribe must panic, a new one must not: %v", hist)
				}
				reg[key] = true
			} else {
				if reg[key] == panicked {
					return fmt.Sprintf("registry-panic: unmatched Unsubscribe must panic, a matched one must not: %v", hist)
				}
				if !panicked {
					delete(reg, key)
				}
			}
			seen = map[[2]int]int{}
		case "probe":
			if !e.Args[2].(bool) {
				return fmt.Sprintf("registry-probe: a channel received a stale or foreign value: %v", hist)
			}
			seen[[2]int{e.Int(0), e.Int(1)}]++
		case "probed":
			for k := 0; k < 2; k++ {
				for c := 0; c < 2; c++ {
					n := seen[[2]int{k, c}]
					want := 0
					if reg[[2]int{k, c}] {
						want = 1
					}
					if n != want {
						return fmt.Sprintf("registry-probe: after %v a publish to k%d reached channel c%d %d times, registry says %d", hist, k+1, c, n, want)
					}
				}
			}
		}
	}
	return ""
}

func notifierCancelCheck(r *vrt.Result) string {
	if m := baseCheck(r, true, true, true); m != "" {
		return m
	}
	ones := 0
	for _, e := range r.Events {
		if e.Kind == "recv" && e.Int(0) == 1 {
			ones++
		}
	}
	if ones > 1 {
		return "delivered-twice: the racing publish was delivered more than once"
	}
	return ""
}

func notifierDupCheck(r *vrt.Result) string {
	if m := baseCheck(r, true, true, true); m != "" {
		return m
	}
	dupPanic, ones := false, 0
	for _, e := range r.Events {
		switch e.Kind {
		case "dup-panic":
			dupPanic = true
		case "recv":
			if e.Int(0) == 1 {
				ones++
			}
		}
	}
	if !dupPanic {
		return "dup-accepted: a second subscription of the same (key, target) pair was not refused"
	}
	if ones != 1 {
		return fmt.Sprintf("dup-changed-registry: after the refused duplicate the first subscription received the publish %d times", ones)
	}
	return ""
}

// Registry model for N-prog: a set of (key, channel) pairs. Publish(key, token) must have
// delivered token to exactly the channels subscribed under key at its linearization point.
type nregState struct {
	reg [2][2]bool
	k   string
}

func (s *nregState) key() string {
	if s.k == "" {
		s.k = fmt.Sprint(s.reg)
	}
	return s.k
}

type nregModel struct {
	delivered map[int][2]bool // token -> channels that received it
}

func (m nregModel) apply(st linState, op *linOp) []linState {
	s := st.(*nregState)
	switch op.kind {
	case "Sub", "Unsub":
		k, c := op.args[0].(int), op.args[1].(int)
		has := s.reg[k][c]
		wantPanic := has == (op.kind == "Sub")
		if !op.pending && op.res[0].(bool) != wantPanic {
			return nil
		}
		if wantPanic {
			return []linState{s}
		}
		n := &nregState{reg: s.reg}
		n.reg[k][c] = op.kind == "Sub"
		return []linState{n}
	case "Pub":
		k, token := op.args[0].(int), op.args[1].(int)
		if m.delivered[token] != s.reg[k] {
			return nil
		}
		return []linState{s}
	}
	panic("nregModel: " + op.kind)
}

func (nregModel) internal(linState) []linState { return nil }

func notifierProgCheck(r *vrt.Result) string {
	if m := baseCheck(r, true, true, true); m != "" {
		return m
	}
	m := nregModel{delivered: map[int][2]bool{}}
	for _, e := range r.Events {
		if e.Kind == "delivered" {
			d := m.delivered[e.Int(1)]
			if d[e.Int(0)] {
				return fmt.Sprintf("delivered-twice: token %d reached channel %d twice", e.Int(1), e.Int(0))
			}
			d[e.Int(0)] = true
			m.delivered[e.Int(1)] = d
		}
	}
	init := &nregState{}
	init.reg[0][0] = true
	ok, why := linearize(m, init, opsFromEvents(r.Events))
	if !ok {
		return "registry-linearization: " + why
	}
	return ""
}
