package bigbuff

import (
	"fmt"
	"sync"

	"github.com/joeycumines/go-bigbuff/internal/v/vrt"
)

// C14 — Workers; C17 — Worker.

func workersScenario(counts []int) func() {
	return func() {
		var w Workers
		var wg sync.WaitGroup
		for i, n := range counts {
			wg.Add(1)
			go func() {
				defer wg.Done()
				name := fmt.Sprintf("f%d", i)
				vrt.Log("call", i, n)
				r, err := w.Call(n, func() (interface{}, error) {
					vrt.Log("start", i)
					vrt.Point()
					vrt.Log("end", i)
					if i%2 == 1 {
						return nil, fmt.Errorf("err-%s", name)
					}
					return name, nil
				})
				rs, es := outcomeStr(r, err)
				vrt.Log("ret", i, rs, es)
			}()
		}
		wg.Wait()
		vrt.Log("joined")
		w.Wait()
		vrt.Log("waited", w.Count())
	}
}

func workerScenario(holders, rounds int) func() {
	return func() {
		var w Worker
		var mu sync.Mutex
		var stops []<-chan struct{}
		nclosed := func() int {
			mu.Lock()
			defer mu.Unlock()
			n := 0
			for _, s := range stops {
				if vrt.IsClosed(s) {
					n++
				}
			}
			return n
		}
		inst := 0
		fn := func(stop <-chan struct{}) {
			mu.Lock()
			inst++
			me := inst
			stops = append(stops, stop)
			mu.Unlock()
			vrt.Log("fnstart", me)
			<-stop
			vrt.Log("sawstop", me)
			vrt.Log("exit", me)
		}
		var wg sync.WaitGroup
		for h := 0; h < holders; h++ {
			wg.Add(1)
			go func() {
				defer wg.Done()
				for r := 0; r < rounds; r++ {
					id := h*10 + r
					vrt.Log("docall", id)
					done := w.Do(fn)
					vrt.Log("held", id, nclosed())
					vrt.Point()
					vrt.Log("release", id, nclosed())
					done()
				}
			}()
		}
		wg.Wait()
		vrt.Log("joined")
	}
}

func init() {
	for _, c := range []struct {
		name   string
		counts []int
		q, t   int
	}{
		{"W-222", []int{2, 2, 2}, 4, 6},
		{"W-211", []int{2, 1, 1}, 4, 6},
		{"W-12", []int{1, 2}, 4, 7},
		{"W-3111", []int{3, 1, 1, 1}, 4, 5},
	} {
		vrt.Register(&vrt.Scenario{Name: c.name, Props: []string{"C14", "C11:race", "C12:goroutine-leak"}, Quick: c.q, Thorough: c.t,
			Desc: fmt.Sprintf("concurrent Workers.Call with counts %v, then Wait and Count", c.counts),
			Opts: vrt.Options{Delay: true}, Run: workersScenario(c.counts), Check: workersCheck})
	}
	for _, c := range []struct {
		name            string
		holders, rounds int
		q, t            int
	}{
		{"V-2x2", 2, 2, 4, 6},
		{"V-3x1", 3, 1, 4, 6},
		{"V-3x2", 3, 2, 3, 5},
	} {
		vrt.Register(&vrt.Scenario{Name: c.name, Props: []string{"C17", "C11:race", "C12:goroutine-leak"}, Quick: c.q, Thorough: c.t,
			Desc: fmt.Sprintf("%d holders x %d rounds of Worker.Do / done around an instance that waits for stop", c.holders, c.rounds),
			Opts: vrt.Options{Delay: true}, Run: workerScenario(c.holders, c.rounds), Check: workerCheck})
	}
}

// V-early: the worker function returns at once, after handing its stop channel to a helper
// goroutine: the stop channel must still be closed once nobody holds the worker.
func workerEarlyReturn() {
	var w Worker
	var hwg sync.WaitGroup
	fn := func(stop <-chan struct{}) {
		hwg.Add(1)
		go func() {
			defer hwg.Done()
			<-stop
			vrt.Log("helper-saw-stop")
		}()
		vrt.Log("fnstart", 1)
		vrt.Log("exit", 1)
	}
	var wg sync.WaitGroup
	for h := 0; h < 2; h++ {
		wg.Add(1)
		go func() {
			defer wg.Done()
			vrt.Log("docall", h)
			done := w.Do(fn)
			vrt.Log("held", h, 0)
			vrt.Point()
			vrt.Log("release", h, 0)
			done()
		}()
	}
	wg.Wait()
	// one more hold makes sure every earlier instance has been shut down completely
	done := w.Do(fn)
	done()
	vrt.Log("joined")
}

func init() {
	vrt.Register(&vrt.Scenario{Name: "V-early", Props: []string{"C17", "C11:race", "C12:goroutine-leak"}, Quick: 3, Thorough: 5,
		Desc: "a worker function that returns at once after handing its stop channel to a helper goroutine; two holders",
		Opts: vrt.Options{Delay: true}, Run: workerEarlyReturn, Check: workerEarlyCheck})
}

// W-lasso: starvation decided as a FAIR CYCLE (lasso) rather than as non-termination of a finite
// driver. One caller X queues a single call; the loopers keep calling. Every time a function
// starts while X's call is still queued, the complete state of the pool is recorded (vo_workers.go:
// the Workers fields with queue entries named by their caller, the phase of every caller, and the
// pending operation + source position of every other thread). Two equal snapshots of one
// execution, between which every live thread moved unless it is blocked on a receive / wait,
// close a cycle that can be repeated for ever under a fair scheduler with X never executed.
func workersLasso(loopers, rounds int, counts []int) func() {
	return func() {
		var w Workers
		ls := newLasso(&w, loopers+1)
		var wg sync.WaitGroup
		for id := 0; id <= loopers; id++ {
			n := counts[id%len(counts)]
			fn := func() (interface{}, error) {
				ls.phase[id] = 2
				vrt.Log("start", id)
				ls.snap(id)
				if id != 0 {
					vrt.Point()
				}
				vrt.Log("end", id)
				ls.phase[id] = 3
				return id, nil
			}
			ls.register(id, fn)
			wg.Add(1)
			go func() {
				defer wg.Done()
				k := rounds
				if id == 0 {
					k = 1
				}
				for r := 0; r < k; r++ {
					ls.phase[id] = 1
					vrt.Log("call", id, n)
					v, err := w.Call(n, fn)
					ls.phase[id] = 0
					vrt.Log("ret", id, fmt.Sprint(v), fmt.Sprint(err))
				}
			}()
		}
		wg.Wait()
		w.Wait()
		vrt.Log("waited", w.Count())
	}
}

func init() {
	for _, c := range []struct {
		name            string
		loopers, rounds int
		counts          []int
		q, t            int
	}{
		{"W-lasso-1", 2, 3, []int{1}, 4, 5},
		{"W-lasso-2", 3, 3, []int{2}, -1, 3},
		{"W-lasso-21", 2, 3, []int{1, 2, 1}, 3, 4},
	} {
		vrt.Register(&vrt.Scenario{Name: c.name, Props: []string{"C14", "C12:goroutine-leak"}, Quick: c.q, Thorough: c.t, Heavy: true,
			Desc: fmt.Sprintf("starvation as a fair cycle: one queued call of X against %d callers that keep calling (%d rounds each, counts %v); no state of the pool with X still queued may recur with every live thread having moved", c.loopers, c.rounds, c.counts),
			Opts: vrt.Options{Delay: true, Sites: true}, Run: workersLasso(c.loopers, c.rounds, c.counts), Check: lassoCheck})
	}
}

// recoverLog runs f and logs whether it panicked (a documented refusal of invalid input).
func recoverLog(what string, f func()) {
	defer func() {
		if r := recover(); r != nil {
			vrt.Log("refused", what)
		}
	}()
	f()
	vrt.Log("not-refused", what)
}

// W-misuse: a refused (panicking, recovered) Call - count 0, a negative count, a nil function - at
// any point of ordinary traffic must leave the pool usable: the valid Calls run exactly once and
// return, Wait returns, Count is 0.
func workersMisuse() {
	var w Workers
	var wg sync.WaitGroup
	kind := vrt.Choose(3, 0)
	wg.Add(1)
	go func() {
		defer wg.Done()
		recoverLog("invalid-call", func() {
			switch kind {
			case 0:
				w.Call(0, func() (interface{}, error) { return nil, nil })
			case 1:
				w.Call(-1, func() (interface{}, error) { return nil, nil })
			default:
				w.Call(1, nil)
			}
		})
	}()
	for i := 0; i < 2; i++ {
		wg.Add(1)
		go func() {
			defer wg.Done()
			name := fmt.Sprintf("f%d", i)
			vrt.Log("call", i, 1)
			r, err := w.Call(1, func() (interface{}, error) {
				vrt.Log("start", i)
				vrt.Point()
				vrt.Log("end", i)
				if i%2 == 1 {
					return nil, fmt.Errorf("err-%s", name)
				}
				return name, nil
			})
			rs, es := outcomeStr(r, err)
			vrt.Log("ret", i, rs, es)
		}()
	}
	wg.Wait()
	vrt.Log("joined")
	w.Wait()
	vrt.Log("waited", w.Count())
}

// V-misuse: Do(nil) is refused by a panic; recovered while an instance is held (or not), it must not
// disturb the Worker: the instance is stopped once nobody holds it and a later Do starts a new one.
func workerMisuse() {
	var w Worker
	fn := func(stop <-chan struct{}) {
		vrt.Log("fnstart", 1)
		<-stop
		vrt.Log("sawstop", 1)
		vrt.Log("exit", 1)
	}
	var wg sync.WaitGroup
	wg.Add(2)
	go func() {
		defer wg.Done()
		vrt.Log("docall", 1)
		done := w.Do(fn)
		vrt.Log("held", 1, 0)
		vrt.Point()
		vrt.Log("release", 1, 0)
		done()
	}()
	go func() {
		defer wg.Done()
		recoverLog("do-nil", func() { w.Do(nil) })
	}()
	wg.Wait()
	// one more hold: it must be granted, and every earlier instance must have been shut down
	fn2 := func(stop <-chan struct{}) {
		vrt.Log("fnstart", 2)
		<-stop
		vrt.Log("sawstop", 2)
		vrt.Log("exit", 2)
	}
	done := w.Do(fn2)
	vrt.Log("held", 2, 0)
	vrt.Log("release", 2, 0)
	done()
	vrt.Log("joined")
}

func init() {
	vrt.Register(&vrt.Scenario{Name: "W-misuse", Props: []string{"C14", "C11:race", "C12:goroutine-leak"}, Quick: 3, Thorough: 5,
		Desc: "a refused Workers.Call (count 0 / negative count / nil function; the panic is recovered) concurrent with two valid Calls; then Wait and Count",
		Opts: vrt.Options{Delay: true}, Run: workersMisuse, Check: workersMisuseCheck})
	vrt.Register(&vrt.Scenario{Name: "V-misuse", Props: []string{"C17", "C11:race", "C12:goroutine-leak"}, Quick: 3, Thorough: 5,
		Desc: "Worker.Do(nil) (refused by a panic, recovered) concurrent with a holder; then a further Do",
		Opts: vrt.Options{Delay: true}, Run: workerMisuse, Check: workerMisuseCheck})
}
