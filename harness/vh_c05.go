package bigbuff

import (
	"context"
	"fmt"
	"sync"

	"github.com/joeycumines/go-bigbuff/internal/v/vrt"
)

// C05 — WaitCond: every wake-up arrives; nil only after a true predicate (DESIGN 7, WC-1).

func init() {
	type v struct {
		name                            string
		bcast, cancel, nilCtx, predTrue bool
	}
	for _, c := range []v{
		{"WC-bcast", true, false, false, false},
		{"WC-cancel", false, true, false, false},
		{"WC-bcast+cancel", true, true, false, false},
		{"WC-nilctx-bcast", true, false, true, false},
		{"WC-predtrue", false, false, false, true},
		{"WC-predtrue+cancel", false, true, false, true},
	} {
		c := c
		vrt.Register(&vrt.Scenario{
			Name:  c.name,
			Props: []string{"C05", "C11:race", "C12:goroutine-leak"},
			Quick: 3, Thorough: 4,
			Desc:  "waiter in WaitCond vs broadcaster / canceller threads (sync.go)",
			Run:   func() { wcRun(c.bcast, c.cancel, c.nilCtx, c.predTrue) },
			Check: wcCheck,
		})
	}
}

func wcRun(withBroadcast, withCancel, nilCtx, predTrue bool) {
	var mu sync.Mutex
	cond := sync.NewCond(&mu)
	flag := predTrue
	var ctx context.Context
	var cancel context.CancelFunc
	if !nilCtx {
		ctx, cancel = context.WithCancel(context.Background())
	}
	done := make(chan struct{})
	go func() {
		mu.Lock()
		err := WaitCond(ctx, cond, func() bool {
			vrt.Log("pred", flag, vrt.MutexLocked(&mu))
			return flag
		})
		vrt.Log("ret", err == nil, flag, vrt.MutexLocked(&mu), fmt.Sprint(err))
		mu.Unlock()
		close(done)
	}()
	if withBroadcast {
		go func() {
			mu.Lock()
			flag = true
			cond.Broadcast()
			mu.Unlock()
		}()
	}
	if withCancel {
		go func() {
			vrt.Log("cancel")
			cancel()
		}()
	}
	<-done
	vrt.Log("joined")
	if cancel != nil {
		cancel()
	}
}
