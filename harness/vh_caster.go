package bigbuff

import (
	"fmt"
	"math"
	"sync"

	"github.com/joeycumines/go-bigbuff/internal/v/vrt"
)

// C08 — ChanCaster drivers (DESIGN Appendix E). Receivers obey the contract: Add(1), then either
// receive one value or deregister with Add(-1).

type kRecv struct {
	id      int
	rounds  int  // registrations performed one after the other
	awaited bool // main waits for the first registration before starting the senders
	giveup  int  // 0: gives up only at the end; 1: a canceller thread closes its give-up channel at any time; -1: never (plain receive)
}

func casterRecv(c *ChanCaster[chan int, int], r kRecv, giveup <-chan struct{}, registered chan<- struct{}, wg *sync.WaitGroup) {
	defer wg.Done()
	for round := 0; round < r.rounds; round++ {
		vrt.Log("regcall", r.id, round)
		n := c.Add(1)
		vrt.Log("regret", r.id, round, n)
		if round == 0 && registered != nil {
			close(registered)
		}
		if r.giveup < 0 {
			vrt.Log("recv", r.id, round, <-c.C)
			continue
		}
		select {
		case v := <-c.C:
			vrt.Log("recv", r.id, round, v)
		case <-giveup:
			vrt.Log("deregcall", r.id, round)
			n := c.Add(-1)
			vrt.Log("deregret", r.id, round, n)
			return
		}
	}
}

func casterSend(c *ChanCaster[chan int, int], v int, checkZero bool, wg *sync.WaitGroup) {
	defer wg.Done()
	vrt.Log("sendcall", v)
	n := c.Send(v)
	vrt.Log("sendret", v, n)
	if checkZero {
		vrt.Log("count-after-send", v, c.Add(0))
	}
}

func casterScenario(capacity int, recvs []kRecv, late []kRecv, sends []int, multi int) func() {
	return func() {
		c := NewChanCaster(make(chan int, capacity))
		var rwg, swg sync.WaitGroup
		endGiveup := make(chan struct{})
		for _, r := range recvs {
			var reg chan struct{}
			if r.awaited {
				reg = make(chan struct{})
			}
			g := (<-chan struct{})(endGiveup)
			if r.giveup == 1 {
				gc := make(chan struct{})
				g = gc
				go func() {
					vrt.Log("giveup", r.id)
					close(gc)
				}()
			}
			rwg.Add(1)
			go casterRecv(c, r, g, reg, &rwg)
			if reg != nil {
				<-reg
			}
		}
		if multi > 0 {
			// one Add(multi) on behalf of `multi` independent receiving goroutines
			vrt.Log("regcall", 100, 0)
			n := c.Add(multi)
			vrt.Log("regret", 100, 0, n)
			for i := 0; i < multi; i++ {
				id := 100 + i
				rwg.Add(1)
				go func() {
					defer rwg.Done()
					if id != 100 {
						vrt.Log("regret", id, 0, -1)
					}
					select {
					case v := <-c.C:
						vrt.Log("recv", id, 0, v)
					case <-endGiveup:
						vrt.Log("deregcall", id, 0)
						n := c.Add(-1)
						vrt.Log("deregret", id, 0, n)
					}
				}()
			}
		}
		for _, v := range sends {
			swg.Add(1)
			go casterSend(c, v, len(late) == 0 && len(sends) == 1, &swg)
		}
		for _, r := range late {
			rwg.Add(1)
			go casterRecv(c, r, endGiveup, nil, &rwg)
		}
		swg.Wait()
		vrt.Log("senders-joined")
		close(endGiveup)
		rwg.Wait()
		vrt.Log("final-count", c.Add(0))
	}
}

// casterSeq: every sequence of Adds over boundary deltas (and Send when nobody is registered);
// each operation is an environment choice, so bound 0 enumerates all sequences of the length.
var casterDeltas = []int{math.MinInt32 - 1, -math.MaxInt32, -2, -1, 0, 1, 2, math.MaxInt32, math.MaxInt32 + 1,
	// beyond 32 bits: a delta must not be judged by its low word
	1 << 32, -(1 << 32), 1<<32 + 3, -(1 << 32) - 1, math.MinInt, math.MaxInt}

func casterSeq(length int) func() { return casterSeqOver(length, casterDeltas) }

// casterSeqOver enumerates sequences over Add(deltas...), Send and close(C).
func casterSeqOver(length int, casterDeltas []int) func() {
	return func() {
		ch := make(chan int)
		c := NewChanCaster(ch)
		count, poisoned, closed := int64(0), false, false // the harness's own copy of the model, to stay within Send's contract
		for i := 0; i < length; i++ {
			k := vrt.Choose(len(casterDeltas)+2, 0)
			if k == len(casterDeltas)+1 {
				// closing C is allowed; afterwards only termination is checked
				if !closed {
					closed = true
					close(ch)
					vrt.Log("close-c")
				}
				continue
			}
			if k == len(casterDeltas) {
				func() {
					defer func() {
						if r := recover(); r != nil {
							vrt.Log("send-panic", fmt.Sprint(r))
						}
					}()
					// with an open channel, Send only when nobody is registered (otherwise it
					// would wait for receivers) and the instance is not known to be poisoned
					if !closed && (count != 0 || poisoned) {
						vrt.Log("send-skipped")
						return
					}
					vrt.Log("send", c.Send(7))
				}()
				continue
			}
			d := casterDeltas[k]
			if d <= math.MaxInt32 && d >= -math.MaxInt32 && !poisoned {
				if n := count + int64(d); n < 0 || n > math.MaxInt32 {
					poisoned = true
				} else {
					count = n
				}
			}
			func() {
				defer func() {
					if r := recover(); r != nil {
						vrt.Log("add-panic", d, fmt.Sprint(r))
					}
				}()
				vrt.Log("add", d, c.Add(d))
			}()
		}
	}
}

func init() {
	type sc struct {
		name        string
		capacity    int
		recvs, late []kRecv
		sends       []int
		multi       int
		q, t        int
		desc        string
	}
	for _, s := range []sc{
		{"K-2r1s", 0, []kRecv{{1, 1, false, 0}, {2, 1, false, 0}}, nil, []int{7}, 0, 2, 3, "two receivers (Add(1); <-C) racing one Send, unbuffered"},
		{"K-2r1s-buf", 1, []kRecv{{1, 1, true, -1}, {2, 1, true, -1}}, nil, []int{7}, 0, 2, 3, "C buffered (cap 1): both receivers registered before the Send and always receive (deregistering is only safe on an unbuffered C)"},
		{"K-dereg", 0, []kRecv{{1, 1, true, 0}, {2, 1, true, 1}}, nil, []int{7}, 0, 2, 3, "receiver 2 deregisters (Add(-1)) at any point of the Send"},
		{"K-late", 0, []kRecv{{1, 1, true, 0}}, []kRecv{{3, 1, false, 0}}, []int{7}, 0, 2, 3, "Add(1) issued concurrently with a Send"},
		{"K-2s", 0, []kRecv{{1, 2, false, 0}, {2, 2, false, 0}}, nil, []int{7, 8}, 0, 1, 2, "two concurrent Sends, two receivers with two registrations each"},
		{"K-multi", 0, nil, nil, []int{7}, 2, 2, 3, "Add(2) on behalf of two receiving goroutines"},
	} {
		s := s
		vrt.Register(&vrt.Scenario{Name: s.name, Props: []string{"C08", "C11:race", "C12:goroutine-leak"}, Quick: s.q, Thorough: s.t, Desc: s.desc,
			Run:   casterScenario(s.capacity, s.recvs, s.late, s.sends, s.multi),
			Check: casterCheck})
	}
	vrt.Register(&vrt.Scenario{Name: "K-seq3", Props: []string{"C08"}, Quick: 0, Thorough: 0, Desc: "every sequence of 3 operations over Add(15 boundary deltas, incl. beyond 32 bits), Send-when-idle and close(C), against the counter-with-poison model",
		Run: casterSeq(3), Check: casterSeqCheck})
	vrt.Register(&vrt.Scenario{Name: "K-close5", Props: []string{"C08"}, Quick: 0, Thorough: 0, Desc: "every sequence of 5 operations over Add(-1), Add(0), Add(1), Send and close(C): a panicking Send must not leave later calls hanging",
		Run: casterSeqOver(5, []int{-1, 0, 1}), Check: casterSeqCheck})
	vrt.Register(&vrt.Scenario{Name: "K-seq4", Props: []string{"C08"}, Quick: -1, Thorough: 0, Desc: "every sequence of 4 operations over the same alphabet",
		Run: casterSeq(4), Check: casterSeqCheck})
}

// K-misuse: an unbalanced Add(-1) races a valid Add(1); once either reported a violation by a
// panic, every later call must panic too (and none may hang).
func casterMisuse() {
	c := NewChanCaster(make(chan int))
	var wg sync.WaitGroup
	try := func(name string, f func()) {
		defer func() {
			if r := recover(); r != nil {
				vrt.Log("panicked", name)
			} else {
				vrt.Log("returned", name)
			}
		}()
		f()
	}
	wg.Add(2)
	go func() { defer wg.Done(); try("add-1", func() { c.Add(-1) }) }()
	go func() { defer wg.Done(); try("add+1", func() { c.Add(1) }) }()
	wg.Wait()
	vrt.Log("phase2")
	try("send", func() { c.Send(7) })
	try("add0", func() { c.Add(0) })
	try("add+1 again", func() { c.Add(1) })
}

func init() {
	vrt.Register(&vrt.Scenario{Name: "K-misuse", Props: []string{"C08", "C11:race"}, Quick: 3, Thorough: 5,
		Desc: "an unbalanced Add(-1) racing a valid Add(1), then Send, Add(0), Add(1): after a reported violation every later call panics",
		Run:  casterMisuse, Check: casterMisuseCheck})
}
