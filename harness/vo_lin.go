package bigbuff

import (
	"fmt"
	"math"
	"sort"
	"strings"

	"github.com/joeycumines/go-bigbuff/internal/v/vrt"
)

// Linearization oracle (DESIGN section 6): a memoised Wing–Gong search for a total order of the
// logged operations that respects real time (call/return stamps) and is accepted by a
// sequential reference model. Supports pending operations (called, never returned: they may
// take effect at any point after their call, or never), operations made of several ordered
// sub-steps sharing one call interval (Close = begin ... end), and internal model steps.

type linOp struct {
	id      int
	thread  string
	call    int64
	ret     int64 // math.MaxInt64 when pending
	kind    string
	obj     int   // consumer / handle id, -1 if none
	args    []any // call arguments
	res     []any // results (nil when pending)
	pending bool
	after   int // id of a sub-step of the same call that must be linearised first, -1 if none
	stepOf  int // id of the first sub-step (for reporting), or own id
}

func (o *linOp) String() string {
	s := fmt.Sprintf("T%s %s", o.thread, o.kind)
	if o.obj >= 0 {
		s += fmt.Sprintf("#%d", o.obj)
	}
	if len(o.args) > 0 {
		s += fmt.Sprint(o.args)
	}
	if o.pending {
		s += " -> (pending)"
	} else {
		s += " -> " + fmt.Sprint(o.res)
	}
	return s
}

// linModel is a sequential specification. States are immutable values with a canonical key.
type linModel interface {
	// apply returns the states the model may be in after op takes effect in state s with the
	// observed result (empty: not accepted here). For a pending op the result is unknown.
	apply(s linState, op *linOp) []linState
	// internal returns the states reachable by one internal step.
	internal(s linState) []linState
}

type linState interface{ key() string }

type linSearch struct {
	m      linModel
	ops    []*linOp
	memo   map[string]struct{}
	budget int
	order  []string // the linearization found
}

// linearize reports whether a linearization exists; on failure it returns a description of
// the deepest prefix reached.
func linearize(m linModel, init linState, ops []*linOp) (bool, string) {
	sort.SliceStable(ops, func(i, j int) bool { return ops[i].call < ops[j].call })
	for i, o := range ops {
		_ = i
		if o.pending {
			o.ret = math.MaxInt64
		}
	}
	ls := &linSearch{m: m, ops: ops, memo: map[string]struct{}{}, budget: 2_000_000}
	done := make([]bool, len(ops))
	best := 0
	var bestTrail []string
	var trail []string
	var rec func(s linState, ndone int) bool
	rec = func(s linState, ndone int) bool {
		// finished when every completed op is linearised
		all := true
		for i, o := range ops {
			if !done[i] && !o.pending {
				all = false
				break
			}
		}
		if all {
			ls.order = append([]string(nil), trail...)
			return true
		}
		if ls.budget <= 0 {
			return false
		}
		ls.budget--
		var kb strings.Builder
		for i := range ops {
			if done[i] {
				kb.WriteByte('1')
			} else {
				kb.WriteByte('0')
			}
		}
		kb.WriteByte('|')
		kb.WriteString(s.key())
		k := kb.String()
		if _, seen := ls.memo[k]; seen {
			return false
		}
		ls.memo[k] = struct{}{}
		if ndone > best {
			best = ndone
			bestTrail = append([]string(nil), trail...)
		}
		// minimal return stamp among undone completed ops: an op may go next only if it was
		// called before every undone op returned
		minRet := int64(math.MaxInt64)
		for i, o := range ops {
			if !done[i] && !o.pending && o.ret < minRet {
				minRet = o.ret
			}
		}
		for i, o := range ops {
			if done[i] || o.call > minRet {
				continue
			}
			if o.after >= 0 && !done[idxOf(ops, o.after)] {
				continue
			}
			for _, ns := range m.apply(s, o) {
				done[i] = true
				trail = append(trail, o.String())
				if rec(ns, ndone+1) {
					return true
				}
				trail = trail[:len(trail)-1]
				done[i] = false
			}
		}
		for _, ns := range m.internal(s) {
			trail = append(trail, "(internal) "+ns.key())
			if rec(ns, ndone) {
				return true
			}
			trail = trail[:len(trail)-1]
		}
		return false
	}
	if rec(init, 0) {
		return true, ""
	}
	if ls.budget <= 0 {
		return true, "" // search budget exhausted: inconclusive, never an alarm
	}
	var undone []string
	for _, o := range ops {
		undone = append(undone, o.String())
	}
	return false, fmt.Sprintf("no linearization; history: %s || longest accepted prefix: %s", strings.Join(undone, "; "), strings.Join(bestTrail, "; "))
}

func idxOf(ops []*linOp, id int) int {
	for i, o := range ops {
		if o.id == id {
			return i
		}
	}
	return -1
}

// opsFromEvents pairs "call"/"ret" events: call events are Kind "c:<op>" with Args[0]=op
// instance id, Args[1]=object id, then arguments; return events are Kind "r:<op>" with
// Args[0]=op instance id, then results.
func opsFromEvents(evs []vrt.Event) []*linOp {
	byID := map[int]*linOp{}
	var ops []*linOp
	for _, e := range evs {
		if strings.HasPrefix(e.Kind, "c:") {
			o := &linOp{id: e.Int(0), thread: e.T, call: e.Seq, kind: e.Kind[2:], obj: e.Int(1), args: e.Args[2:], pending: true, after: -1}
			o.stepOf = o.id
			byID[o.id] = o
			ops = append(ops, o)
		} else if strings.HasPrefix(e.Kind, "r:") {
			if o := byID[e.Int(0)]; o != nil {
				o.ret, o.res, o.pending = e.Seq, e.Args[1:], false
			}
		}
	}
	return ops
}
