package bigbuff

import (
	"context"
	"fmt"
	"reflect"
	"sync"
	"time"

	"github.com/joeycumines/go-bigbuff/internal/v/vrt"
)

// C09 / C10 — Exclusive drivers (DESIGN Appendix E).

type xEnv struct {
	e  *Exclusive
	wg sync.WaitGroup
}

// work returns a work function that logs its start and end with a scheduling point in between.
func xWork(name string, key string) func() (interface{}, error) {
	return func() (interface{}, error) {
		vrt.Log("start", name, key)
		vrt.Point()
		vrt.Log("end", name, key)
		return name, nil
	}
}

func outcomeStr(r interface{}, err error) (string, string) {
	rs := "<nil>"
	if r != nil {
		rs = fmt.Sprint(r)
	}
	return rs, errStr(err)
}

func (x *xEnv) call(id int, key, name string, wait time.Duration) {
	defer x.wg.Done()
	vrt.Log("call", id, "call", key, name)
	var r interface{}
	var err error
	if wait > 0 {
		r, err = x.e.CallAfter(key, xWork(name, key), wait)
	} else {
		r, err = x.e.Call(key, xWork(name, key))
	}
	rs, es := outcomeStr(r, err)
	vrt.Log("outcome", id, rs, es)
}

func (x *xEnv) async(id int, key, name string) {
	defer x.wg.Done()
	vrt.Log("call", id, "async", key, name)
	ch := x.e.CallAsync(key, xWork(name, key))
	o := <-ch
	rs, es := outcomeStr(o.Result, o.Error)
	vrt.Log("outcome", id, rs, es)
	if o2, ok := <-ch; ok || o2 != nil {
		vrt.Log("second-outcome", id)
	}
}

func (x *xEnv) start(id int, key, name string, wait time.Duration) {
	defer x.wg.Done()
	vrt.Log("call", id, "start", key, name)
	if wait > 0 {
		x.e.StartAfter(key, xWork(name, key), wait)
	} else {
		x.e.Start(key, xWork(name, key))
	}
	vrt.Log("started", id)
}

func (x *xEnv) rate(id int, ctx context.Context, key, name string, d time.Duration) {
	x.rateOpt(id, ExclusiveRateLimit(ctx, d), key, name)
}

// rateOpt: a call through a given (possibly shared) ExclusiveRateLimit option value.
func (x *xEnv) rateOpt(id int, rl ExclusiveOption, key, name string) {
	defer x.wg.Done()
	vrt.Log("call", id, "call", key, name)
	o := <-x.e.CallWithOptions(ExclusiveKey(key), ExclusiveValue(xWork(name, key)), rl,
		ExclusiveWrapper(func(w WorkFunc) WorkFunc {
			// outermost wrapper: the work function's return (after the rate-limit gap) is the end of the execution
			return func(resolve func(interface{}, error)) {
				vrt.Log("wstart", name, key)
				w(resolve)
				vrt.Log("wend", name, key)
			}
		}))
	rs, es := outcomeStr(o.Result, o.Error)
	vrt.Log("outcome", id, rs, es)
}

func (x *xEnv) noResolve(id int, key, name string) {
	defer x.wg.Done()
	vrt.Log("call", id, "noresolve", key, name)
	o := <-x.e.CallWithOptions(ExclusiveKey(key), ExclusiveWork(func(resolve func(interface{}, error)) {
		vrt.Log("start", name, key)
		vrt.Point()
		vrt.Log("end", name, key)
	}))
	rs, es := outcomeStr(o.Result, o.Error)
	vrt.Log("outcome", id, rs, es)
}

// finish: wait for quiescence of the per-key state, then a fresh call must run a new execution.
func (x *xEnv) finish(keys ...string) {
	x.wg.Wait()
	vrt.Log("joined")
	// Start-style work may still be running: wait until the per-key map is empty (reflection, by
	// field name, so a rename degrades to a skipped sub-check instead of a build failure)
	f := reflect.ValueOf(x.e).Elem().FieldByName("work")
	if vrt.RaceBuild {
		// peeking at the map without its lock is itself a data race: not in the race tier
		// (a few yields let Start-style work finish; more would trip the spin detector)
		for i := 0; i < 10; i++ {
			vrt.Yield()
		}
	} else if f.IsValid() && f.Kind() == reflect.Map {
		for i := 0; f.Len() != 0; i++ {
			vrt.Yield()
		}
		vrt.Log("map-empty", f.Len())
	} else {
		vrt.Log("map-unknown")
		for i := 0; i < 10; i++ {
			vrt.Yield()
		}
	}
	for i, k := range keys {
		x.wg.Add(1)
		x.call(900+i, k, fmt.Sprintf("fresh-%s", k), 0)
	}
}

func xSame() {
	x := &xEnv{e: new(Exclusive)}
	x.wg.Add(3)
	go x.call(1, "k", "w1", 0)
	go x.async(2, "k", "w2")
	go x.start(3, "k", "w3", 0)
	x.finish("k")
}

func xAfter() {
	x := &xEnv{e: new(Exclusive)}
	x.wg.Add(3)
	go x.call(1, "k", "w1", 10*time.Millisecond)
	go x.call(2, "k", "w2", 0)
	go x.start(3, "k", "w3", 5*time.Millisecond)
	x.finish("k")
}

func xRate() {
	x := &xEnv{e: new(Exclusive)}
	ctx, cancel := context.WithCancel(context.Background())
	defer cancel()
	x.wg.Add(3)
	go x.rate(1, ctx, "k", "w1", 10*time.Millisecond)
	go x.rate(2, ctx, "k", "w2", 10*time.Millisecond)
	go x.call(3, "k", "w3", 0)
	x.finish("k")
}

func xNoResolve() {
	x := &xEnv{e: new(Exclusive)}
	x.wg.Add(2)
	go x.noResolve(1, "k", "n1")
	go x.call(2, "k", "w2", 0)
	x.finish("k")
}

func xIndep() {
	x := &xEnv{e: new(Exclusive)}
	release := make(chan struct{})
	x.wg.Add(2)
	go func() {
		defer x.wg.Done()
		vrt.Log("call", 1, "call", "A", "wA")
		r, err := x.e.Call("A", func() (interface{}, error) {
			vrt.Log("start", "wA", "A")
			<-release // key A's work is long-running: it ends only after a call on key B has returned
			vrt.Log("end", "wA", "A")
			return "wA", nil
		})
		rs, es := outcomeStr(r, err)
		vrt.Log("outcome", 1, rs, es)
	}()
	go func() {
		defer x.wg.Done()
		vrt.Log("call", 2, "call", "B", "wB")
		r, err := x.e.Call("B", xWork("wB", "B"))
		rs, es := outcomeStr(r, err)
		vrt.Log("outcome", 2, rs, es)
		close(release)
	}()
	x.finish("A", "B")
}

func init() {
	for _, s := range []struct {
		name string
		run  func()
		q, t int
		desc string
	}{
		{"X-same", xSame, 3, 4, "Call, CallAsync and Start on one key"},
		{"X-after", xAfter, 3, 4, "CallAfter(10ms), Call and StartAfter(5ms) on one key (virtual time)"},
		{"X-rate", xRate, 3, 4, "two rate-limited calls (resolve-to-return gap of 10ms) and a plain Call on one key"},
		{"X-noresolve", xNoResolve, 3, 4, "a work function that returns without resolving, and a plain Call, on one key"},
		{"X-indep", xIndep, 3, 4, "key A's work function blocks until a Call on key B has returned"},
	} {
		vrt.Register(&vrt.Scenario{Name: s.name, Props: []string{"C09:overlap,key-", "C10", "C11:race", "C12:goroutine-leak"},
			Quick: s.q, Thorough: s.t, Desc: s.desc, Opts: vrt.Options{Delay: true}, Run: s.run, Check: exclusiveCheck})
	}
}

// X-noresolve-start: the execution that does not resolve is run by a Start-style call's
// goroutine while a blocking call is coalesced into it.
func xNoResolveStart() {
	x := &xEnv{e: new(Exclusive)}
	x.wg.Add(2)
	go x.start(1, "k", "w1", 5*time.Millisecond)
	go x.noResolve(2, "k", "n2")
	x.finish("k")
}

func init() {
	vrt.Register(&vrt.Scenario{Name: "X-noresolve-start", Props: []string{"C09:overlap,key-", "C10", "C11:race", "C12:goroutine-leak"},
		Quick: 3, Thorough: 4, Desc: "StartAfter(5ms) and a blocking call whose work function never resolves, coalesced on one key",
		Opts: vrt.Options{Delay: true}, Run: xNoResolveStart, Check: exclusiveCheck})
}

// X-successor: calls of mixed styles arrive, in an enumerated order, while an execution of the
// key is in progress (its work function is held on a channel), i.e. they are the registrants of
// the successor item; then the execution is released.
func xSuccessor() {
	x := &xEnv{e: new(Exclusive)}
	started, release := make(chan struct{}), make(chan struct{})
	x.wg.Add(1)
	go func() {
		defer x.wg.Done()
		vrt.Log("call", 1, "call", "k", "w1")
		r, err := x.e.Call("k", func() (interface{}, error) {
			vrt.Log("start", "w1", "k")
			close(started)
			<-release
			vrt.Log("end", "w1", "k")
			return "w1", nil
		})
		rs, es := outcomeStr(r, err)
		vrt.Log("outcome", 1, rs, es)
	}()
	<-started
	order := [][]int{{0, 1, 2}, {0, 2, 1}, {1, 0, 2}, {1, 2, 0}, {2, 0, 1}, {2, 1, 0}}[vrt.Choose(6, 0)]
	for _, k := range order {
		switch k {
		case 0:
			vrt.Log("call", 2, "start", "k", "w2")
			x.e.Start("k", xWork("w2", "k"))
			vrt.Log("started", 2)
		default:
			id, name := 2+k, fmt.Sprintf("w%d", 2+k)
			vrt.Log("call", id, "async", "k", name)
			ch := x.e.CallAsync("k", xWork(name, "k"))
			x.wg.Add(1)
			go func() {
				defer x.wg.Done()
				o := <-ch
				rs, es := outcomeStr(o.Result, o.Error)
				vrt.Log("outcome", id, rs, es)
			}()
		}
	}
	close(release)
	x.finish("k")
}

func init() {
	vrt.Register(&vrt.Scenario{Name: "X-successor", Props: []string{"C09:overlap,key-", "C10", "C11:race", "C12:goroutine-leak"},
		Quick: 3, Thorough: 4, Desc: "Start and two CallAsync arrive (in every order) while an execution of the key is in progress, then it is released",
		Opts: vrt.Options{Delay: true}, Run: xSuccessor, Check: exclusiveCheck})
}

// X-rate-cancel: the rate limit's context is cancelled while the rate-limited work is in flight;
// a plain call on the same key follows.
func xRateCancel() {
	x := &xEnv{e: new(Exclusive)}
	ctx, cancel := context.WithCancel(context.Background())
	defer cancel()
	x.wg.Add(3)
	go x.rate(1, ctx, "k", "w1", 10*time.Millisecond)
	go func() {
		defer x.wg.Done()
		vrt.Log("rate-cancel")
		cancel()
	}()
	go x.call(3, "k", "w3", 0)
	x.finish("k")
}

func init() {
	vrt.Register(&vrt.Scenario{Name: "X-rate-cancel", Props: []string{"C09:overlap,key-", "C10", "C11:race", "C12:goroutine-leak"},
		Quick: 3, Thorough: 4, Desc: "a rate-limited call whose context is cancelled at any point of its work, and a plain Call on the same key",
		Opts: vrt.Options{Delay: true}, Run: xRateCancel, Check: exclusiveCheck})
}

// X-rate-shared: ONE ExclusiveRateLimit option value used for calls on two keys (an option is a
// value; nothing says it may be applied only once): every call is answered with the result of a work
// function submitted for ITS key, the executions of one key never overlap, both keys are released.
func xRateShared() {
	x := &xEnv{e: new(Exclusive)}
	ctx, cancel := context.WithCancel(context.Background())
	defer cancel()
	rl := ExclusiveRateLimit(ctx, 10*time.Millisecond)
	x.wg.Add(3)
	go x.rateOpt(1, rl, "A", "a1")
	go x.rateOpt(2, rl, "A", "a2")
	go x.rateOpt(3, rl, "B", "b1")
	x.finish("A", "B")
}

func init() {
	vrt.Register(&vrt.Scenario{Name: "X-rate-shared", Props: []string{"C09:overlap,key-", "C10", "C11:race", "C12:goroutine-leak"},
		Quick: 2, Thorough: 3, Desc: "one ExclusiveRateLimit option value shared by two calls on key A and one on key B",
		Opts: vrt.Options{Delay: true}, Run: xRateShared, Check: exclusiveCheck})
}

// X-misuse: a refused call (nil function: documented panic, recovered) concurrent with a valid call
// on the same key must not leave anything behind: the valid call and the fresh call are answered.
func xMisuse() {
	x := &xEnv{e: new(Exclusive)}
	x.wg.Add(2)
	go func() {
		defer x.wg.Done()
		recoverLog("nil-value", func() { x.e.Call("k", nil) })
	}()
	go x.call(2, "k", "w2", 0)
	x.finish("k")
}

func init() {
	vrt.Register(&vrt.Scenario{Name: "X-misuse", Props: []string{"C09:overlap,key-", "C10", "C11:race", "C12:goroutine-leak"},
		Quick: 3, Thorough: 4, Desc: "Call(key, nil) (refused by a panic, recovered) concurrent with a valid Call on the same key",
		Opts: vrt.Options{Delay: true}, Run: xMisuse, Check: exclusiveCheck})
}

// X-resolve-gap (added after seed C10-r7a): two callers are coalesced into the execution that
// follows a running one; its work function resolves and then returns only after both callers have
// received their outcome (a work function that hands out a resource and tears it down once every
// consumer is done). Every caller of the batch must be answered by the resolve, not by the return.
func xResolveGap() {
	x := &xEnv{e: new(Exclusive)}
	var (
		started    = make(chan struct{})
		finish     = make(chan struct{})
		registered sync.WaitGroup
		answered   sync.WaitGroup
	)
	x.wg.Add(1)
	go func() {
		defer x.wg.Done()
		vrt.Log("call", 0, "async", "k", "w0")
		o := <-x.e.CallAsync("k", func() (interface{}, error) {
			vrt.Log("start", "w0", "k")
			close(started)
			<-finish
			vrt.Log("end", "w0", "k")
			return "w0", nil
		})
		rs, es := outcomeStr(o.Result, o.Error)
		vrt.Log("outcome", 0, rs, es)
	}()
	<-started
	registered.Add(2)
	answered.Add(2)
	for i := 1; i <= 2; i++ {
		name := fmt.Sprintf("g%d", i)
		x.wg.Add(1)
		go func() {
			defer x.wg.Done()
			vrt.Log("call", i, "call", "k", name)
			ch := x.e.CallWithOptions(ExclusiveKey("k"), ExclusiveWork(func(resolve func(interface{}, error)) {
				vrt.Log("start", name, "k")
				resolve(name, nil)
				answered.Wait()
				vrt.Log("end", name, "k")
			}))
			registered.Done()
			o := <-ch
			rs, es := outcomeStr(o.Result, o.Error)
			vrt.Log("outcome", i, rs, es)
			answered.Done()
		}()
	}
	registered.Wait()
	close(finish)
	x.finish("k")
}

func init() {
	vrt.Register(&vrt.Scenario{Name: "X-resolve-gap", Props: []string{"C09:overlap,key-", "C10", "C11:race", "C12:goroutine-leak"},
		Quick: 3, Thorough: 4, Desc: "two callers coalesced behind a running execution; their work function resolves, then returns only once both have been answered",
		Opts: vrt.Options{Delay: true}, Run: xResolveGap, Check: exclusiveCheck})
}
