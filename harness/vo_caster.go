package bigbuff

import (
	"fmt"
	"math"
	"strings"

	"github.com/joeycumines/go-bigbuff/internal/v/vrt"
)

// casterCheck: delivery/count predicates of C08 over the event log.
func casterCheck(r *vrt.Result) string {
	if m := baseCheck(r, true, true, true); m != "" {
		return m
	}
	regs := map[[2]int]*kreg{}
	get := func(e vrt.Event) *kreg {
		k := [2]int{e.Int(0), e.Int(1)}
		if regs[k] == nil {
			regs[k] = &kreg{id: k[0], round: k[1]}
		}
		return regs[k]
	}
	type send struct {
		v, n      int
		call, ret int64
		zeroAfter int
		hasZero   bool
	}
	sends := map[int]*send{}
	final := -1
	for _, e := range r.Events {
		switch e.Kind {
		case "regcall":
			get(e).regcall = e.Seq
		case "regret":
			g := get(e)
			g.regret = e.Seq
			if g.regcall == 0 { // members of a multi registration share the Add of id 100
				if base := regs[[2]int{100, 0}]; base != nil {
					g.regcall = base.regcall
				}
			}
		case "recv":
			g := get(e)
			if g.got {
				return fmt.Sprintf("double-receive: registration %d/%d received twice", g.id, g.round)
			}
			g.got, g.recv, g.val = true, e.Seq, e.Int(2)
		case "deregcall":
			g := get(e)
			g.dereg, g.deregcall = true, e.Seq
		case "deregret":
			get(e).deregret = e.Seq
		case "sendcall":
			sends[e.Int(0)] = &send{v: e.Int(0), call: e.Seq}
		case "sendret":
			s := sends[e.Int(0)]
			s.ret, s.n = e.Seq, e.Int(1)
		case "count-after-send":
			s := sends[e.Int(0)]
			s.hasZero, s.zeroAfter = true, e.Int(1)
		case "final-count":
			final = e.Int(0)
		}
	}
	if final != 0 {
		return fmt.Sprintf("final-count: registered count is %d after every receiver received or deregistered", final)
	}
	for _, s := range sends {
		if s.ret == 0 {
			return fmt.Sprintf("send-no-return: Send(%d) never returned", s.v)
		}
		got := 0
		for _, g := range regs {
			if g.got && g.val == s.v {
				got++
				if g.regcall > s.ret {
					return fmt.Sprintf("unregistered-receive: registration %d/%d was requested after Send(%d) returned but received its value", g.id, g.round, s.v)
				}
			}
		}
		if got != s.n {
			return fmt.Sprintf("count-mismatch: Send(%d) returned %d but %d registered receivers received the value", s.v, s.n, got)
		}
		allBefore := true
		for _, g := range regs {
			if g.regret == 0 || g.regret > s.call {
				allBefore = false
			}
		}
		if s.hasZero && allBefore && s.zeroAfter != 0 {
			return fmt.Sprintf("nonzero-after-send: Add(0) = %d right after Send(%d) returned", s.zeroAfter, s.v)
		}
		if len(sends) == 1 {
			// single Send: every receiver registered before it began either received or deregistered
			for _, g := range regs {
				if g.regret != 0 && g.regret < s.call && !g.got && (!g.dereg || g.deregcall > s.ret) {
					return fmt.Sprintf("missed-receiver: registration %d/%d was complete before Send(%d) began, stayed registered until it returned, and received nothing", g.id, g.round, s.v)
				}
			}
		}
	}
	for _, g := range regs {
		if g.regret == 0 && g.id != 100 {
			continue
		}
		if g.got && g.dereg {
			return fmt.Sprintf("recv-and-dereg: registration %d/%d both received and deregistered", g.id, g.round)
		}
	}
	// no receiver may see the same value twice across its registrations
	seen := map[[2]int]bool{}
	for _, g := range regs {
		if g.got {
			k := [2]int{g.id, g.val}
			if seen[k] {
				return fmt.Sprintf("duplicate-delivery: receiver %d received %d in two registrations", g.id, g.val)
			}
			seen[k] = true
		}
	}
	return ""
}

type kreg struct {
	id, round           int
	regcall, regret     int64
	recv                int64
	val                 int
	deregcall, deregret int64
	got                 bool
	dereg               bool
}

// casterSeqCheck: the sequential counter-with-poison model (DESIGN A.3).
func casterSeqCheck(r *vrt.Result) string {
	if r.Status == vrt.StSteps {
		for _, e := range r.Events {
			if e.Kind == "close-c" {
				// e.g. Add(MaxInt32); close(C); Send (panics); Add(-MaxInt32): the deregistration
				// drains 2^31-1 receives from the closed channel - finite, but beyond the step
				// horizon of one execution. Inconclusive, not an alarm.
				return ""
			}
		}
	}
	if m := baseCheck(r, true, true, true); m != "" {
		return m
	}
	count, poisoned, raw := int64(0), false, int64(0)
	var hist []string
	for _, e := range r.Events {
		if e.Kind == "close-c" {
			// after close(C) the receive/send semantics of the channel change; only termination
			// (checked above) is demanded of later calls
			return ""
		}
		switch e.Kind {
		case "add", "add-panic":
			d := int64(e.Int(0))
			panicked := e.Kind == "add-panic"
			hist = append(hist, fmt.Sprintf("Add(%d)%s", d, map[bool]string{true: "!", false: fmt.Sprintf("=%d", e.Int(1))}[panicked]))
			h := strings.Join(hist, ";")
			switch {
			case d > math.MaxInt32 || d < -math.MaxInt32:
				if !panicked {
					return "oob-delta-accepted: " + h
				}
			case poisoned:
				raw += d
				if !panicked {
					if raw >= 0 && raw <= math.MaxInt32 && int64(e.Int(1)) == raw {
						// the library applies every in-range delta arithmetically, even one it reports;
						// an opposite delta brings the counter back into range
						return "poison-lost-arithmetic: after a reported invalid Add, later deltas brought the raw counter back into range and calls succeed again: " + h
					}
					return "poison-lost: a call after a reported invalid Add did not panic: " + h
				}
			default:
				n := count + d
				if n < 0 || n > math.MaxInt32 {
					if !panicked {
						return "invalid-add-accepted: " + h
					}
					poisoned = true
					raw = n
				} else {
					if panicked {
						return "valid-add-panicked: " + h
					}
					if int64(e.Int(1)) != n {
						return fmt.Sprintf("wrong-count: %s (model %d)", h, n)
					}
					count = n
				}
			}
		case "send", "send-panic", "send-skipped":
			hist = append(hist, e.Kind)
			h := strings.Join(hist, ";")
			if e.Kind == "send-skipped" {
				continue
			}
			if poisoned {
				if e.Kind != "send-panic" {
					return "poison-lost: Send after a reported invalid Add did not panic: " + h
				}
				continue
			}
			if e.Kind == "send-panic" {
				return "valid-send-panicked: " + h
			}
			if e.Int(0) != 0 {
				return "send-without-receivers-nonzero: " + h
			}
		}
	}
	return ""
}

func casterMisuseCheck(r *vrt.Result) string {
	if m := baseCheck(r, true, true, true); m != "" {
		return m
	}
	reported, phase2 := false, false
	for _, e := range r.Events {
		switch e.Kind {
		case "phase2":
			phase2 = true
		case "panicked":
			if !phase2 {
				reported = true
			}
		case "returned":
			if phase2 && reported {
				return fmt.Sprintf("poison-lost: %q returned normally although an earlier Add had reported a violation", e.Str(0))
			}
		}
	}
	if !reported {
		// Add(+1) first, then Add(-1): balanced, nothing to report - then the later calls are ordinary
		return ""
	}
	return ""
}
