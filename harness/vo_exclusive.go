package bigbuff

import (
	"fmt"
	"strings"

	"github.com/joeycumines/go-bigbuff/internal/v/vrt"
)

// exclusiveCheck: C09 (signatures overlap / key-...) and C10 (everything else).
// exclusiveCheck: an overlap (C09) does not hide what else is wrong with the same execution (C10:
// wrong or missing outcomes): both are reported, one per line.
func exclusiveCheck(r *vrt.Result) string {
	m := exclusiveCheckInner(r, false)
	if strings.HasPrefix(m, "overlap") {
		if m2 := exclusiveCheckInner(r, true); m2 != "" {
			return m + "\n" + m2
		}
	}
	return m
}

func exclusiveCheckInner(r *vrt.Result, skipOverlap bool) string {
	if r.Status == vrt.StSteps {
		return "step-horizon: execution exceeded the step horizon"
	}
	type exec struct {
		name, key  string
		start, end int64
	}
	type call struct {
		id         int
		style      string
		key, fn    string
		at         int64
		outcomeAt  int64
		res, err   string
		hasOutcome bool
		started    bool
	}
	var execs []*exec
	open := map[string]*exec{}  // by name
	wopen := map[string]*exec{} // wrapper-level executions (rate limited): the true extent of the work function
	var wexecs []*exec
	calls := map[int]*call{}
	var order []int
	supplied := map[string]string{} // fn name -> key
	mapEmpty := -1
	var rateCancelAt int64
	for _, e := range r.Events {
		switch e.Kind {
		case "call":
			c := &call{id: e.Int(0), style: e.Str(1), key: e.Str(2), fn: e.Str(3), at: e.Seq}
			calls[c.id] = c
			order = append(order, c.id)
			supplied[c.fn] = c.key
		case "outcome":
			c := calls[e.Int(0)]
			if c.hasOutcome {
				return fmt.Sprintf("two-outcomes: call %d received a second outcome", c.id)
			}
			c.hasOutcome, c.outcomeAt, c.res, c.err = true, e.Seq, e.Str(1), e.Str(2)
		case "second-outcome":
			return fmt.Sprintf("two-outcomes: the async channel of call %d yielded a second value", e.Int(0))
		case "started":
			calls[e.Int(0)].started = true
		case "start":
			x := &exec{name: e.Str(0), key: e.Str(1), start: e.Seq}
			if open[x.name] != nil {
				if !skipOverlap {
					return fmt.Sprintf("overlap: work function %s started again while it was running", x.name)
				}
			}
			open[x.name] = x
			execs = append(execs, x)
		case "end":
			if x := open[e.Str(0)]; x != nil {
				x.end = e.Seq
				delete(open, e.Str(0))
			}
		case "wstart":
			x := &exec{name: e.Str(0), key: e.Str(1), start: e.Seq}
			wopen[x.name] = x
			wexecs = append(wexecs, x)
		case "wend":
			if x := wopen[e.Str(0)]; x != nil {
				x.end = e.Seq
				delete(wopen, e.Str(0))
			}
		case "map-empty":
			mapEmpty = e.Int(0)
		case "rate-cancel":
			rateCancelAt = e.Seq
		}
	}
	// C09: per key, executions never overlap (the extent of a rate-limited one is its wrapper's)
	extent := func(x *exec) (int64, int64) {
		s, en := x.start, x.end
		for _, w := range wexecs {
			if w.name == x.name {
				if w.start < s {
					s = w.start
				}
				if w.end == 0 || (en != 0 && w.end > en) {
					en = w.end
				}
			}
		}
		if en == 0 {
			en = 1 << 62
		}
		return s, en
	}
	for i, a := range execs {
		for _, b := range execs[i+1:] {
			if a.key != b.key {
				continue
			}
			as, ae := extent(a)
			bs, be := extent(b)
			if as < be && bs < ae {
				if !skipOverlap {
					return fmt.Sprintf("overlap: work functions %s and %s of key %q ran at the same time", a.name, b.name, a.key)
				}
			}
		}
	}
	if len(r.Panics) > 0 {
		return fmt.Sprintf("panic: %s in T%s", r.Panics[0].Msg, r.Panics[0].Thread)
	}
	if r.Status != vrt.StOK {
		// a hang: key independence (C09) when another key's work is what everybody waits for
		for _, x := range execs {
			if x.key == "A" && x.end == 0 {
				return fmt.Sprintf("key-serialised: a call on key B waits for key A's work function: %v", r.Blocked)
			}
		}
		return fmt.Sprintf("%s: a call never returned: %v", r.Status, r.Blocked)
	}
	// C10
	for _, id := range order {
		c := calls[id]
		switch c.style {
		case "start":
			if !c.started {
				return fmt.Sprintf("start-no-return: Start call %d never returned", id)
			}
			ok := false
			for _, x := range execs {
				if x.key == c.key && x.start > c.at {
					ok = true
				}
			}
			if !ok {
				return fmt.Sprintf("start-lost: no execution of key %q began after Start call %d", c.key, id)
			}
			continue
		}
		if !c.hasOutcome {
			return fmt.Sprintf("no-outcome: call %d received no outcome", id)
		}
		if c.res == "<nil>" {
			// only legitimate for an execution that returned without resolving
			if c.err == "" {
				return fmt.Sprintf("empty-outcome: call %d received (nil, nil)", id)
			}
			if c.err == "context canceled" && rateCancelAt != 0 && rateCancelAt < c.outcomeAt {
				continue // the rate limit's context was cancelled: its wrapper resolves (nil, ctx.Err()) for the whole batch
			}
			found := false
			for _, x := range execs {
				if x.key == c.key && x.start > c.at && x.start < c.outcomeAt && len(x.name) > 0 && x.name[0] == 'n' {
					found = true
				}
			}
			if !found {
				return fmt.Sprintf("spurious-error: call %d received error %q but no non-resolving execution began after it", id, c.err)
			}
			continue
		}
		if c.err != "" {
			return fmt.Sprintf("result-and-error: call %d received (%s, %s)", id, c.res, c.err)
		}
		if k, ok := supplied[c.res]; !ok || k != c.key {
			return fmt.Sprintf("foreign-result: call %d on key %q received %q, which no caller of that key supplied", id, c.key, c.res)
		}
		ok := false
		for _, x := range execs {
			if x.name == c.res && x.start > c.at && x.start < c.outcomeAt {
				ok = true
			}
		}
		if !ok {
			return fmt.Sprintf("stale-outcome: call %d received the result of %s, whose execution did not begin after the call was made", id, c.res)
		}
	}
	ncalls := 0
	for range calls {
		ncalls++
	}
	if len(execs) > ncalls {
		return fmt.Sprintf("too-many-executions: %d executions for %d calls", len(execs), ncalls)
	}
	if mapEmpty > 0 {
		return fmt.Sprintf("state-left: %d per-key entries remain after all work finished", mapEmpty)
	}
	// the fresh calls ran their own new executions
	for id, c := range calls {
		if id >= 900 && c.res != c.fn {
			return fmt.Sprintf("fresh-call: a fresh call on key %q after quiescence received %q instead of running its own function", c.key, c.res)
		}
	}
	if len(r.Leaked) > 0 {
		return fmt.Sprintf("goroutine-leak: %v", r.Leaked)
	}
	return ""
}
