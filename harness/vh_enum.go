package bigbuff

import (
	"context"
	"errors"
	"fmt"
	"runtime"
	"time"

	"github.com/joeycumines/go-bigbuff/internal/v/vrt"
)

// ---- R-enum: package Range over a scripted Consumer (C02, fault sequences) ----------------------

type scriptConsumer struct {
	n int // values handed out
}

var errScript = errors.New("scripted failure")

func (s *scriptConsumer) Close() error          { return nil }
func (s *scriptConsumer) Done() <-chan struct{} { return nil }
func (s *scriptConsumer) Get(ctx context.Context) (interface{}, error) {
	if vrt.Choose(2, 0) == 1 {
		vrt.Log("get", "err")
		return nil, errScript
	}
	s.n++
	vrt.Log("get", "ok", s.n)
	return s.n, nil
}
func (s *scriptConsumer) Commit() error {
	if vrt.Choose(2, 0) == 1 {
		vrt.Log("commit", "err")
		return errScript
	}
	vrt.Log("commit", "ok")
	return nil
}
func (s *scriptConsumer) Rollback() error {
	vrt.Log("rollback")
	return nil
}

func rangeEnum(maxIter int) func() {
	return func() {
		var ctx context.Context
		var cancel context.CancelFunc = func() {}
		switch vrt.Choose(3, 0) {
		case 0:
			vrt.Log("ctx", "nil")
		case 1:
			ctx, cancel = context.WithCancel(context.Background())
			vrt.Log("ctx", "live")
		case 2:
			ctx, cancel = context.WithCancel(context.Background())
			cancel()
			vrt.Log("ctx", "cancelled")
		}
		defer cancel()
		s := &scriptConsumer{}
		done := make(chan struct{})
		go func() { // in its own goroutine, so that the callback may also end it with runtime.Goexit
			defer close(done)
			returned := false
			defer func() {
				if r := recover(); r != nil {
					vrt.Log("ret", "panic", fmt.Sprint(r))
				} else if !returned {
					vrt.Log("ret", "goexit")
				}
			}()
			err := Range(ctx, s, func(index int, value interface{}) bool {
				k := 4
				if ctx != nil {
					k = 5
				}
				if index+1 >= maxIter {
					vrt.Log("fn", index, tok(value), "false(horizon)")
					return false
				}
				switch vrt.Choose(k, 0) {
				case 0:
					vrt.Log("fn", index, tok(value), "true")
					return true
				case 1:
					vrt.Log("fn", index, tok(value), "false")
					return false
				case 2:
					vrt.Log("fn", index, tok(value), "panic")
					panic("scripted panic")
				case 3:
					vrt.Log("fn", index, tok(value), "goexit")
					runtime.Goexit()
					return true
				default:
					vrt.Log("fn", index, tok(value), "true+cancel")
					cancel()
					return true
				}
			})
			returned = true
			vrt.Log("ret", "err", errStr(err))
		}()
		<-done
	}
}

// ---- CL-enum: the cleaner functions over every small input (C03, inputs) ---------------------------

func cleanerEnum() {
	n, bad := 0, 0
	var lists [][]int
	var gen func(cur []int, depth int)
	gen = func(cur []int, depth int) {
		lists = append(lists, append([]int(nil), cur...))
		if depth == 3 {
			return
		}
		for o := -2; o <= 7; o++ {
			gen(append(cur, o), depth+1)
		}
	}
	gen(nil, 0)
	for size := 0; size <= 5; size++ {
		for _, offs := range lists {
			in := append([]int(nil), offs...)
			got := DefaultCleaner(size, in)
			n++
			if want := defaultPolicy(size, offs); got != want {
				if bad < 5 {
					vrt.Log("mismatch", "DefaultCleaner", size, fmt.Sprint(offs), got, want)
				}
				bad++
			}
			for i := range in {
				if in[i] != offs[i] {
					vrt.Log("mismatch", "DefaultCleaner mutated its input", size, fmt.Sprint(offs), 0, 0)
					bad++
				}
			}
		}
	}
	for max := 0; max <= 6; max++ {
		for target := 0; target <= 6; target++ {
			var note *FixedBufferCleanerNotification
			cl := FixedBufferCleaner(max, target, func(nf FixedBufferCleanerNotification) { note = &nf })
			clNil := FixedBufferCleaner(max, target, nil)
			for size := 0; size <= 5; size++ {
				for _, offs := range lists {
					note = nil
					got := cl(size, offs)
					n++
					want := fixedPolicy(max, target)(size, offs)
					forced := size > max
					ok := got == want && clNil(size, offs) == want
					if forced {
						ok = ok && note != nil && note.Max == max && note.Target == target && note.Size == size && note.Trim == got && fmt.Sprint(note.Offsets) == fmt.Sprint(offs)
					} else {
						ok = ok && note == nil
					}
					if !ok {
						if bad < 5 {
							vrt.Log("mismatch", fmt.Sprintf("FixedBufferCleaner(%d,%d)", max, target), size, fmt.Sprint(offs), got, want)
						}
						bad++
					}
				}
			}
		}
	}
	vrt.AddEvaluations(n)
	vrt.Log("enumerated", n, bad)
}

// ---- B-seq: every operation sequence on a real Buffer against the model (C01/C02/C03/C12, histories) --

func bufSeq(length int, cleaner func() Cleaner) func() {
	return func() {
		var cl Cleaner
		if cleaner != nil {
			cl = cleaner()
		}
		h := newBufH(0, cl)
		var cs []bufC
		puts := 0
		pos := []int{0, 0}   // harness-side read position estimate (committed+delta) relative to creation
		start := []int{0, 0} // puts at creation time (lower bound of the start)
		open := []bool{false, false}
		next := 1
		for step := 0; step < length; step++ {
			// operations: 0 Put1, 1 Put2, 2 New, 3 drain, then per consumer Get/Commit/Rollback/Close
			k := vrt.Choose(4+4*len(cs), 0)
			switch {
			case k == 0:
				h.put(0, nil, next)
				next++
				puts++
			case k == 1:
				h.put(0, nil, next, next+1)
				next += 2
				puts += 2
			case k == 2:
				if len(cs) < 2 {
					c := h.newC()
					if c.c != nil {
						i := len(cs)
						cs = append(cs, c)
						open[i], start[i], pos[i] = true, 0, 0
					}
				}
			case k == 3:
				for i := 0; i < 3; i++ {
					vrt.Yield() // let the cleaner run to quiescence
				}
				h.size()
			default:
				i, op := (k-4)/4, (k-4)%4
				c := cs[i]
				switch op {
				case 0:
					// a Get that would block forever is outside a sequential program: skip it
					// (the consumer starts no later than the current end, so `puts - pos` values may be pending)
					if open[i] && c.remaining(h) <= 0 {
						continue
					}
					if _, ok := c.get(0, nil); ok {
						pos[i]++
					}
				case 1:
					c.commit()
				case 2:
					if c.rollback() {
						_ = pos
					}
				case 3:
					// Close waits for uncommitted reads: resolve them first (documented precondition)
					c.rollback()
					c.close()
					open[i] = false
				}
			}
		}
		h.slice()
		for i := range cs {
			h.diff(cs[i])
		}
		h.finish(cs...)
		_ = time.Second
	}
}

// remaining uses Diff (itself checked against the model) to avoid Gets that would block forever.
func (c bufC) remaining(h bufH) int {
	d, ok := h.b.Diff(c.c)
	if !ok {
		return 1 // closed consumer: Get returns an error, does not block
	}
	return d
}

func init() {
	vrt.Register(&vrt.Scenario{Name: "R-enum", Props: []string{"C02"}, Quick: 0, Thorough: 0,
		Desc: "package Range over a scripted Consumer: every sequence of <=4 iterations of {Get ok/err} x {fn true/false/panic/Goexit/true+cancel} x {Commit ok/err} x ctx {nil, live, pre-cancelled} against a reference loop",
		Run:  rangeEnum(4), Check: rangeEnumCheck})
	vrt.Register(&vrt.Scenario{Name: "CL-enum", Props: []string{"C03"}, Quick: 0, Thorough: 0,
		Desc: "DefaultCleaner for every size 0..5 and offsets list of length <=3 over -2..7; FixedBufferCleaner(max,target) for max,target in 0..6 on the same inputs, against the specification",
		Run:  cleanerEnum, Check: enumMismatchCheck})
	for _, v := range []struct {
		name    string
		cleaner func() Cleaner
		policy  func(int, []int) int
	}{
		{"default", nil, defaultPolicy},
		{"fixed21", func() Cleaner { return FixedBufferCleaner(2, 1, nil) }, fixedPolicy(2, 1)},
		{"fixed33", func() Cleaner { return FixedBufferCleaner(3, 3, nil) }, fixedPolicy(3, 3)},
		{"fixed2m1", func() Cleaner { return FixedBufferCleaner(2, -1, nil) }, fixedPolicy(2, -1)}, // asks for more than the buffer holds
	} {
		for _, l := range []struct{ n, q, t int }{{4, 0, 1}, {5, -1, 0}, {6, -1, 0}} {
			vrt.Register(&vrt.Scenario{Name: fmt.Sprintf("B-seq%d-%s", l.n, v.name), Props: []string{"C01", "C02", "C03", "C12:goroutine-leak,close-"}, Quick: l.q, Thorough: l.t,
				Desc: fmt.Sprintf("every sequence of %d operations over {Put, Put(batch), NewConsumer, drain, Get/Commit/Rollback/Close per consumer} (<=2 consumers) on a real Buffer with the %s cleaner, linearised against the model", l.n, v.name),
				Opts: vrt.Options{Delay: true}, Run: bufSeq(l.n, v.cleaner), Check: bufferCheck(v.policy)})
		}
	}
}
