package bigbuff

import (
	"context"
	"fmt"
	"reflect"
	"sync"
	"sync/atomic"
	"time"

	"github.com/joeycumines/go-bigbuff/internal/v/vrt"
)

// Litmus programs for the shim (DESIGN Appendix B): tiny programs whose complete outcome set
// under Go's semantics is known. `bin/verif litmus` explores each with a generous bound and
// compares the set of OUTCOME labels with Expect - a missing label means the model is too strict
// (missed bugs), an extra one that it is too loose (false alarms).

func out(format string, a ...any) { vrt.Log("OUTCOME", fmt.Sprintf(format, a...)) }

func lit(name string, expect []string, run func()) {
	bound := 6
	if name == "with-timeout" || name == "afterfunc-stop-vs-cancel" {
		bound = 3
	}
	vrt.Register(&vrt.Scenario{Name: "L-" + name, Props: []string{"LITMUS"}, Quick: 4, Thorough: bound, Expect: expect,
		Run: run, Check: func(r *vrt.Result) string { return "" }})
}

func init() {
	lit("unbuffered", []string{"recv 1;"}, func() {
		c := make(chan int)
		go func() { c <- 1 }()
		out("recv %d", <-c)
	})
	lit("two-receivers-one-send", []string{"A got 1;B gave up;", "B got 1;A gave up;"}, func() {
		c, quit := make(chan int), make(chan struct{})
		var wg sync.WaitGroup
		var mu sync.Mutex
		res := map[string]string{}
		for _, n := range []string{"A", "B"} {
			wg.Add(1)
			go func() {
				defer wg.Done()
				select {
				case v := <-c:
					mu.Lock()
					res[n] = fmt.Sprintf("%s got %d", n, v)
					mu.Unlock()
				case <-quit:
					mu.Lock()
					res[n] = n + " gave up"
					mu.Unlock()
				}
			}()
		}
		c <- 1
		close(quit)
		wg.Wait()
		if res["A"] == "A got 1" {
			out("%s", res["A"])
			out("%s", res["B"])
		} else {
			out("%s", res["B"])
			out("%s", res["A"])
		}
	})
	lit("buffered-fifo", []string{"1 2;"}, func() {
		c := make(chan int, 1)
		go func() { c <- 1; c <- 2 }()
		a := <-c
		b := <-c
		out("%d %d", a, b)
	})
	lit("close-wakes-all", []string{"0 false 0 false;"}, func() {
		c := make(chan int)
		var wg sync.WaitGroup
		r := make([]string, 2)
		for i := 0; i < 2; i++ {
			wg.Add(1)
			go func() { defer wg.Done(); v, ok := <-c; r[i] = fmt.Sprint(v, ok) }()
		}
		close(c)
		wg.Wait()
		out("%s %s", r[0], r[1])
	})
	lit("send-on-closed", []string{"panic: send on closed channel;"}, func() {
		c := make(chan int, 1)
		close(c)
		defer func() { out("panic: %v", recover()) }()
		c <- 1
	})
	lit("select-two-ready", []string{"a;", "b;"}, func() {
		a, b := make(chan int, 1), make(chan int, 1)
		a <- 1
		b <- 1
		select {
		case <-a:
			out("a")
		case <-b:
			out("b")
		}
	})
	lit("select-default", []string{"default;"}, func() {
		a := make(chan int)
		select {
		case <-a:
			out("a")
		default:
			out("default")
		}
	})
	lit("select-default-vs-sender", []string{"default;", "got 1;"}, func() {
		a := make(chan int)
		done := make(chan struct{})
		go func() {
			select {
			case a <- 1:
			case <-done:
			}
		}()
		vrt.Yield()
		select {
		case v := <-a:
			out("got %d", v)
		default:
			out("default")
		}
		close(done)
	})
	lit("mutex-counter", []string{"2;"}, func() {
		var mu sync.Mutex
		x := 0
		var wg sync.WaitGroup
		for i := 0; i < 2; i++ {
			wg.Add(1)
			go func() { defer wg.Done(); mu.Lock(); x++; mu.Unlock() }()
		}
		wg.Wait()
		out("%d", x)
	})
	lit("lost-update", []string{"1;", "2;"}, func() {
		var x atomic.Int32
		var wg sync.WaitGroup
		for i := 0; i < 2; i++ {
			wg.Add(1)
			go func() { defer wg.Done(); v := x.Load(); x.Store(v + 1) }()
		}
		wg.Wait()
		out("%d", x.Load())
	})
	lit("mutex-unlock-by-other", []string{"ok;"}, func() {
		var mu sync.Mutex
		mu.Lock()
		done := make(chan struct{})
		go func() { mu.Unlock(); close(done) }()
		<-done
		mu.Lock()
		out("ok")
	})
	lit("rwmutex-writer-preference", []string{"tryrlock=false;", "tryrlock=true;"}, func() {
		// a reader holds; a writer's Lock is pending: TryRLock fails once the writer has announced
		var rw sync.RWMutex
		rw.RLock()
		go func() { rw.Lock(); rw.Unlock() }()
		vrt.Yield()
		ok := rw.TryRLock()
		out("tryrlock=%v", ok)
		if ok {
			rw.RUnlock()
		}
		rw.RUnlock()
	})
	lit("rwmutex-trylock-with-reader", []string{"false;"}, func() {
		var rw sync.RWMutex
		rw.RLock()
		out("%v", rw.TryLock())
		rw.RUnlock()
	})
	lit("cond-broadcast-before-wait-is-lost", []string{"woken;", "deadlock"}, func() {
		// broadcast WITHOUT the lock: lost if it lands before the waiter registers
		var mu sync.Mutex
		c := sync.NewCond(&mu)
		go func() { c.Broadcast() }()
		mu.Lock()
		c.Wait()
		mu.Unlock()
		out("woken")
	})
	lit("cond-with-lock-never-lost", []string{"woken;"}, func() {
		var mu sync.Mutex
		c := sync.NewCond(&mu)
		ready := false
		go func() { mu.Lock(); ready = true; c.Broadcast(); mu.Unlock() }()
		mu.Lock()
		for !ready {
			c.Wait()
		}
		mu.Unlock()
		out("woken")
	})
	lit("cond-signal-fifo", []string{"first;"}, func() {
		var mu sync.Mutex
		c := sync.NewCond(&mu)
		woke := make(chan string, 2)
		reg := make(chan struct{})
		wait := func(name string) {
			mu.Lock()
			reg <- struct{}{} // registered next (the lock is held until Wait releases it)
			c.Wait()
			mu.Unlock()
			woke <- name
		}
		go wait("first")
		<-reg
		mu.Lock() // the first waiter is now parked
		mu.Unlock()
		go wait("second")
		<-reg
		mu.Lock()
		mu.Unlock()
		c.Signal()
		out("%s", <-woke)
		c.Signal()
		<-woke
	})
	lit("waitgroup", []string{"2;"}, func() {
		var wg sync.WaitGroup
		var n atomic.Int32
		wg.Add(2)
		for i := 0; i < 2; i++ {
			go func() { n.Add(1); wg.Done() }()
		}
		wg.Wait()
		out("%d", n.Load())
	})
	lit("once", []string{"1 true;"}, func() {
		var o sync.Once
		var n atomic.Int32
		var wg sync.WaitGroup
		sawDone := true
		for i := 0; i < 2; i++ {
			wg.Add(1)
			go func() {
				defer wg.Done()
				o.Do(func() { vrt.Point(); n.Add(1) })
				if n.Load() != 1 { // Do returns only after f has finished
					sawDone = false
				}
			}()
		}
		wg.Wait()
		out("%d %v", n.Load(), sawDone)
	})
	lit("cas-loop", []string{"2;"}, func() {
		var x atomic.Int32
		var wg sync.WaitGroup
		for i := 0; i < 2; i++ {
			wg.Add(1)
			go func() {
				defer wg.Done()
				for {
					v := x.Load()
					if x.CompareAndSwap(v, v+1) {
						return
					}
				}
			}()
		}
		wg.Wait()
		out("%d", x.Load())
	})
	// Go >= 1.23 timer semantics (go.mod says 1.23.4): Stop reports true as long as the value has
	// not been received, and no stale value is observable afterwards
	lit("timer-stop", []string{"stopped, nothing received;"}, func() {
		t := time.NewTimer(5 * time.Millisecond)
		go func() { time.Sleep(5 * time.Millisecond) }()
		vrt.Yield()
		if t.Stop() {
			select {
			case <-t.C:
				out("stopped but received")
			default:
				out("stopped, nothing received")
			}
		} else {
			out("fired")
		}
	})
	lit("ticker-drops", []string{"1;"}, func() {
		t := time.NewTicker(time.Millisecond)
		time.Sleep(5 * time.Millisecond)
		out("%d", len(t.C))
		t.Stop()
	})
	// the 5ms sleeper becomes runnable first, but nothing forces it to run before the 10ms one
	lit("sleep-order", []string{"5 10;", "10 5;"}, func() {
		var mu sync.Mutex
		var order []int
		var wg sync.WaitGroup
		for _, d := range []int{10, 5} {
			wg.Add(1)
			go func() {
				defer wg.Done()
				time.Sleep(time.Duration(d) * time.Millisecond)
				mu.Lock()
				order = append(order, d)
				mu.Unlock()
			}()
		}
		wg.Wait()
		out("%d %d", order[0], order[1])
	})
	lit("context-cancel-children", []string{"true true;"}, func() {
		p, cancel := context.WithCancel(context.Background())
		a, ca := context.WithCancel(p)
		b, cb := context.WithCancel(p)
		defer ca()
		defer cb()
		cancel()
		out("%v %v", a.Err() != nil, b.Err() != nil)
	})
	lit("afterfunc-stop-vs-cancel", []string{"stopped=false ran=1;", "stopped=true ran=0;"}, func() {
		ctx, cancel := context.WithCancel(context.Background())
		var ran atomic.Int32
		stop := context.AfterFunc(ctx, func() { ran.Add(1) })
		go cancel()
		vrt.Yield()
		s := stop()
		cancel()
		for i := 0; i < 4; i++ {
			vrt.Yield()
		}
		out("stopped=%v ran=%d", s, ran.Load())
	})
	lit("afterfunc-already-cancelled", []string{"1;"}, func() {
		ctx, cancel := context.WithCancel(context.Background())
		cancel()
		var ran atomic.Int32
		done := make(chan struct{})
		context.AfterFunc(ctx, func() { ran.Add(1); close(done) })
		<-done
		out("%d", ran.Load())
	})
	lit("without-cancel", []string{"false v;"}, func() {
		type k struct{}
		p, cancel := context.WithCancel(context.WithValue(context.Background(), k{}, "v"))
		c := context.WithoutCancel(p)
		cancel()
		out("%v %v", c.Err() != nil, c.Value(k{}))
	})
	lit("with-timeout", []string{"context canceled;", "context deadline exceeded;"}, func() {
		ctx, cancel := context.WithTimeout(context.Background(), 5*time.Millisecond)
		go func() { time.Sleep(5 * time.Millisecond); cancel() }()
		<-ctx.Done()
		out("%v", ctx.Err())
		cancel()
	})
	lit("spin-trylock", []string{"got it;"}, func() {
		var mu sync.Mutex
		mu.Lock()
		go func() { mu.Unlock() }()
		for !mu.TryLock() {
		}
		out("got it")
	})
	lit("spin-forever", []string{"livelock"}, func() {
		var mu sync.Mutex
		mu.Lock()
		for !mu.TryLock() {
		}
		out("unreachable")
	})
	lit("deadlock-detected", []string{"deadlock"}, func() {
		c := make(chan int)
		<-c
		out("unreachable")
	})
	lit("reflect-select", []string{"recv 1;", "sent;"}, func() {
		a, b := make(chan int, 1), make(chan int, 1)
		a <- 1
		i, v, _ := reflect.Select([]reflect.SelectCase{
			{Dir: reflect.SelectRecv, Chan: reflect.ValueOf(a)},
			{Dir: reflect.SelectSend, Chan: reflect.ValueOf(b), Send: reflect.ValueOf(2)},
		})
		if i == 0 {
			out("recv %d", v.Int())
		} else {
			out("sent")
		}
	})
	vrt.Register(&vrt.Scenario{Name: "L-map-order", Props: []string{"LITMUS"}, Quick: 4, Thorough: 6,
		Expect: []string{"abc;", "acb;", "bac;", "bca;", "cab;", "cba;"}, Opts: vrt.Options{MapPerm: true},
		Run: func() {
			m := map[string]int{}
			m["a"], m["b"], m["c"] = 1, 2, 3
			s := ""
			for k := range m {
				s += k
			}
			out("%s", s)
		}, Check: func(r *vrt.Result) string { return "" }})
}

// Race-tier litmus (Appendix B #30): the same unsynchronised increment, fully serialised by the
// scheduler, must be reported when nothing orders the two threads and must be silent when a
// primitive does. Names end in -racy / -clean; `bin/verif litmus` checks the detector's verdict.
func init() {
	rl := func(name string, run func()) {
		vrt.Register(&vrt.Scenario{Name: "LR-" + name, Props: []string{"RACELITMUS"}, Quick: 0, Thorough: 0, Run: run,
			Check: func(r *vrt.Result) string { return "" }})
	}
	rl("plain-racy", func() {
		x := 0
		done := make(chan struct{}, 2)
		var g atomic.Int32 // spawning only; no ordering between the two writers
		for i := 0; i < 2; i++ {
			go func() { x++; g.Load(); done <- struct{}{} }()
		}
		<-done
		<-done
		_ = x
	})
	rl("mutex-clean", func() {
		x := 0
		var mu sync.Mutex
		var wg sync.WaitGroup
		for i := 0; i < 2; i++ {
			wg.Add(1)
			go func() { defer wg.Done(); mu.Lock(); x++; mu.Unlock() }()
		}
		wg.Wait()
		_ = x
	})
	rl("chan-clean", func() {
		x := 0
		c := make(chan struct{})
		done := make(chan struct{})
		go func() { x++; c <- struct{}{} }()
		go func() { <-c; x++; close(done) }()
		<-done
		_ = x
	})
	rl("rwmutex-clean", func() {
		x := 0
		var rw sync.RWMutex
		var wg sync.WaitGroup
		wg.Add(2)
		go func() { defer wg.Done(); rw.Lock(); x++; rw.Unlock() }()
		go func() { defer wg.Done(); rw.RLock(); _ = x; rw.RUnlock() }()
		wg.Wait()
	})
	rl("cond-racy", func() {
		// sync.Cond gives no happens-before edge of its own: a Broadcast without the lock does
		// not order the writer's store before the woken reader's load
		x := 0
		var mu sync.Mutex
		c := sync.NewCond(&mu)
		ready := make(chan struct{})
		done := make(chan struct{})
		go func() {
			mu.Lock()
			ready <- struct{}{} // edge reader -> writer only
			c.Wait()
			mu.Unlock()
			_ = x
			close(done)
		}()
		<-ready
		mu.Lock() // the reader is parked in Wait once this succeeds (edge reader -> writer again)
		mu.Unlock()
		x = 1
		c.Broadcast()
		<-done
	})
}

// "-pu" variants: one hand-written driver per type re-run with an extra scheduling point right after
// every Unlock / RUnlock (Options.PostUnlock), so that what a call does AFTER leaving a critical
// section (copying a snapshot, reading a field it no longer protects) is interleaved with the other
// calls. Registered here because they only combine drivers and oracles defined elsewhere.
func init() {
	pu := vrt.Options{Delay: true, PostUnlock: true}
	vrt.Register(&vrt.Scenario{Name: "B-txn-pu", Props: []string{"C02", "C03"}, Quick: 1, Thorough: 2,
		Desc: "B-txn with a scheduling point after every unlock", Opts: pu, Run: bTxn, Check: bufferCheck(defaultPolicy)})
	vrt.Register(&vrt.Scenario{Name: "B-shared-pu", Props: []string{"C01", "C02"}, Quick: 1, Thorough: 2,
		Desc: "B-shared with a scheduling point after every unlock", Opts: pu, Run: bShared, Check: bufferCheck(defaultPolicy)})
	vrt.Register(&vrt.Scenario{Name: "W-211-pu", Props: []string{"C14"}, Quick: 2, Thorough: 4,
		Desc: "W-211 with a scheduling point after every unlock", Opts: pu, Run: workersScenario([]int{2, 1, 1}), Check: workersCheck})
	vrt.Register(&vrt.Scenario{Name: "V-2x2-pu", Props: []string{"C17"}, Quick: 2, Thorough: 4,
		Desc: "V-2x2 with a scheduling point after every unlock", Opts: pu, Run: workerScenario(2, 2), Check: workerCheck})
	vrt.Register(&vrt.Scenario{Name: "X-same-pu", Props: []string{"C09:overlap,key-", "C10"}, Quick: 2, Thorough: 3,
		Desc: "X-same with a scheduling point after every unlock", Opts: pu, Run: xSame, Check: exclusiveCheck})
	vrt.Register(&vrt.Scenario{Name: "S-basic-pu", Props: []string{"C06:deliver-", "C07"}, Quick: 1, Thorough: 2,
		Desc: "S-basic with a scheduling point after every unlock", Opts: vrt.Options{PostUnlock: true}, Run: psBasic, Check: pubsubCheck})
	vrt.Register(&vrt.Scenario{Name: "N-cancel-pu", Props: []string{"C15"}, Quick: 2, Thorough: 3,
		Desc: "N-cancel with a scheduling point after every unlock", Opts: vrt.Options{PostUnlock: true}, Run: nCancel(false), Check: notifierCancelCheck})
}
