package bigbuff

import (
	"fmt"
	"math"
	"time"

	"github.com/joeycumines/go-bigbuff/internal/v/vrt"
)

func retryCheck(r *vrt.Result) string {
	if m := baseCheck(r, true, true, true); m != "" {
		return m
	}
	rate := time.Duration(0)
	type call struct {
		k        int
		at       int64
		t0       int
		outcome  string
		cancelIn bool
	}
	var calls []*call
	var rands [][2]int64
	var cancelledAt int64
	cancelClock := -1
	ret, retErr := "", ""
	retClock := 0
	var retAt int64
	for _, e := range r.Events {
		switch e.Kind {
		case "rate":
			rate = time.Duration(e.Int(0))
			if rate <= 0 {
				rate = 300 * time.Millisecond
			}
		case "op-call":
			calls = append(calls, &call{k: e.Int(0), at: e.Seq, t0: e.Int(1)})
		case "op-ret":
			calls[len(calls)-1].outcome = e.Str(1)
		case "cancelled":
			if cancelledAt == 0 {
				cancelledAt = e.Seq
				if len(e.Args) > 0 {
					cancelClock = e.Int(0)
				}
			}
			if len(calls) > 0 && calls[len(calls)-1].outcome == "" {
				calls[len(calls)-1].cancelIn = true
			}
		case "rand":
			rands = append(rands, [2]int64{e.Args[0].(int64), e.Args[1].(int64)})
		case "ret":
			ret, retErr, retClock, retAt = e.Str(0), e.Str(1), e.Int(2), e.Seq
		}
	}
	if retAt == 0 {
		return "no-return: the retry function never returned"
	}
	hist := ""
	for _, c := range calls {
		hist += fmt.Sprintf(" call%d=%s", c.k, c.outcome)
	}
	hist += fmt.Sprintf(" => (%s, %s)", ret, retErr)
	// calls started after the cancellation was complete: at most the one already past its check
	late := 0
	for _, c := range calls {
		if cancelledAt != 0 && c.at > cancelledAt {
			late++
		}
	}
	if late > 1 {
		return "call-after-cancel: more than one operation call started after the context was cancelled:" + hist
	}
	for i, c := range calls {
		if c.cancelIn && i+1 < len(calls) && c.outcome == "error" {
			return "call-after-cancel: an operation call started although the previous call had cancelled the context:" + hist
		}
	}
	// result
	n := len(calls)
	if n == 0 {
		if cancelledAt == 0 || ret != "<nil>" || retErr != "context canceled" {
			return "wrong-result: no call was made:" + hist
		}
		return ""
	}
	last := calls[n-1]
	for _, c := range calls[:n-1] {
		if c.outcome != "error" {
			return "call-after-end: the loop continued after a success or fatal error:" + hist
		}
	}
	switch last.outcome {
	case "success":
		if ret != fmt.Sprintf("r%d", last.k) && ret != "ok" || retErr != "<nil>" {
			return "wrong-result: after a success:" + hist
		}
	case "fatal", "fatal2":
		if ret != fmt.Sprintf("r%d", last.k) || retErr != "plain failure" {
			return "wrong-result: after a fatal error (result of that call with the fully unwrapped error expected):" + hist
		}
	case "error":
		if cancelledAt == 0 {
			return "gave-up: returned after a plain error without cancellation:" + hist
		}
		if ret != "<nil>" || retErr != "context canceled" {
			return "wrong-result: after cancellation (nil result and the context's error expected):" + hist
		}
		if cancelClock >= 0 && r.EarlyFires == 0 && retClock > cancelClock && retAt > cancelledAt {
			return fmt.Sprintf("wait-not-cut-short: returned %v of virtual time after the context was cancelled:%s", time.Duration(retClock-cancelClock), hist)
		}
	}
	// back-off: the k-th retry requests 2^min(k,31) slots; the wait is answer x rate
	nRetries := n - 1
	if len(rands) < nRetries || len(rands) > n {
		return fmt.Sprintf("backoff-requests: %d random draws for %d calls:%s", len(rands), n, hist)
	}
	for i, rq := range rands {
		k := i + 1
		if k > 31 {
			k = 31
		}
		if rq[0] != int64(1)<<uint(k) {
			return fmt.Sprintf("backoff-range: retry %d requested a slot in [0,%d), expected [0,2^%d):%s", i+1, rq[0], k, hist)
		}
		if i+1 < n {
			want := time.Duration(rq[1]) * rate
			gotWait := time.Duration(calls[i+1].t0 - calls[i].t0)
			if cancelledAt == 0 && gotWait != want {
				return fmt.Sprintf("backoff-delay: waited %v before retry %d, expected %d x %v:%s", gotWait, i+1, rq[1], rate, hist)
			}
			if gotWait > want {
				return fmt.Sprintf("backoff-delay: waited %v before retry %d, more than %d x %v:%s", gotWait, i+1, rq[1], rate, hist)
			}
		}
	}
	return ""
}

// retryTwiceCheck judges each invocation of the returned function on its own.
func retryTwiceCheck(r *vrt.Result) string {
	var parts [][]vrt.Event
	for _, e := range r.Events {
		if e.Kind == "invoke" {
			parts = append(parts, nil)
			continue
		}
		if len(parts) > 0 {
			parts[len(parts)-1] = append(parts[len(parts)-1], e)
		}
	}
	if len(parts) != 2 {
		return baseCheck(r, true, true, true)
	}
	for i, ev := range parts {
		sub := *r
		sub.Events = ev
		if m := retryCheck(&sub); m != "" {
			return fmt.Sprintf("%s (invocation %d of the returned function)", m, i+1)
		}
	}
	return ""
}

func retryCalcCheck(r *vrt.Result) string {
	if m := baseCheck(r, true, true, true); m != "" {
		return m
	}
	var n, v int64 = -1, -1
	for _, e := range r.Events {
		switch e.Kind {
		case "rand":
			n, v = e.Args[0].(int64), e.Args[1].(int64)
		case "calc":
			c, rate, d := e.Int(0), int64(e.Int(1)), int64(e.Int(2))
			k := c
			if k > 31 {
				k = 31
			}
			if n != int64(1)<<uint(k) {
				return fmt.Sprintf("backoff-range: c=%d requested [0,%d), expected [0,2^%d)", c, n, k)
			}
			if float64(v)*float64(rate) < math.MaxInt64 && d != v*rate {
				return fmt.Sprintf("backoff-delay: c=%d rate=%d answer=%d gave %d", c, rate, v, d)
			}
		}
	}
	return ""
}

func attemptCheck(r *vrt.Result) string {
	if r.Status == vrt.StSteps {
		return "step-horizon: execution exceeded the step horizon"
	}
	if len(r.Panics) > 0 {
		return fmt.Sprintf("panic: %s in T%s", r.Panics[0].Msg, r.Panics[0].Thread)
	}
	count, pace, cmode := 0, 0, 0
	var recvT []int
	var recvAt []int64
	var cancelledAt int64
	cancelledClock, closedClock := -1, -1
	closed := false
	ctxErrAtClose := true
	returnedLen := -1
	for _, e := range r.Events {
		switch e.Kind {
		case "config":
			count, pace, cmode = e.Int(0), e.Int(1), e.Int(2)
		case "returned":
			returnedLen = e.Int(0)
		case "over-buffered":
			return fmt.Sprintf("over-buffered: %d values buffered in the channel", e.Int(0))
		case "buffered":
			if e.Int(0) > 1 {
				return fmt.Sprintf("over-buffered: %d values buffered in the channel", e.Int(0))
			}
		case "recv":
			recvT = append(recvT, e.Int(0))
			recvAt = append(recvAt, e.Seq)
		case "cancelled":
			if cancelledAt == 0 {
				cancelledAt, cancelledClock = e.Seq, e.Int(0)
			}
		case "closed":
			closed = true
			if len(e.Args) > 1 {
				ctxErrAtClose = e.Args[1].(bool)
			}
		case "closed-model":
			if closedClock < 0 {
				closedClock = e.Int(0)
			}
		}
	}
	_ = pace
	if cmode == 5 && returnedLen == 0 {
		// the deadline expired (early timer events) before LinearAttempt looked at the context
		if len(recvT) != 0 {
			return "precancelled-not-empty: the channel was returned empty (expired context) but later yielded values"
		}
	} else if cmode == 1 || cmode == 4 {
		if returnedLen != 0 || len(recvT) != 0 {
			return "precancelled-not-empty: with an already cancelled context the channel must be closed and empty"
		}
	} else if returnedLen != 1 {
		return fmt.Sprintf("first-not-immediate: %d values buffered when LinearAttempt returned (expected the first one)", returnedLen)
	}
	if r.Status != vrt.StOK || !closed {
		return fmt.Sprintf("not-closed: the channel was never closed (%s): %v", r.Status, r.Blocked)
	}
	if len(recvT) > count {
		return fmt.Sprintf("too-many: %d values received, count %d", len(recvT), count)
	}
	for i := 1; i < len(recvT); i++ {
		if recvT[i] < recvT[i-1] {
			return "timestamps-decrease: the received timestamps are not non-decreasing"
		}
	}
	if cancelledAt == 0 && cmode != 5 && len(recvT) != count {
		return fmt.Sprintf("too-few: %d values received without cancellation, count %d", len(recvT), count)
	}
	if len(recvT) < count && !ctxErrAtClose {
		return fmt.Sprintf("closed-early: the channel was closed after %d of %d values although the context was still live", len(recvT), count)
	}
	if cancelledAt != 0 {
		after := 0
		for _, at := range recvAt {
			if at > cancelledAt {
				after++
			}
		}
		// a tick stamped later than the cancellation was necessarily forwarded after it
		lateTicks := 0
		for i, t := range recvT {
			if i > 0 && t-recvT[0] > cancelledClock {
				lateTicks++
			}
		}
		if cmode >= 2 && lateTicks > 1 {
			return fmt.Sprintf("ticks-after-cancel: %d ticks were forwarded after the context was cancelled (at most one allowed)", lateTicks)
		}
		if after > 2 {
			return fmt.Sprintf("after-cancel: %d values received after cancellation (at most one buffered and one in flight)", after)
		}
		// closed promptly: no further tick needed beyond the one in flight
		if cmode == 3 {
			// cancellation is only visible at the next tick: closure within one tick
			if closedClock >= 0 && r.EarlyFires == 0 && closedClock-cancelledClock > int(10*time.Millisecond) {
				return fmt.Sprintf("close-late: with a context whose Done never fires the channel was closed %v after cancellation (more than one tick)", time.Duration(closedClock-cancelledClock))
			}
		} else if closedClock >= 0 && r.EarlyFires == 0 && closedClock != cancelledClock {
			return fmt.Sprintf("close-needs-tick: after cancellation the channel was closed only %v of virtual time later (a tick was needed)", time.Duration(closedClock-cancelledClock))
		}
	}
	if len(r.Leaked) > 0 {
		return fmt.Sprintf("goroutine-leak: %v", r.Leaked)
	}
	return ""
}
