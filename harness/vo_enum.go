package bigbuff

import (
	"fmt"
	"strings"

	"github.com/joeycumines/go-bigbuff/internal/v/vrt"
)

func enumMismatchCheck(r *vrt.Result) string {
	if m := baseCheck(r, true, true, true); m != "" {
		return m
	}
	done := false
	for _, e := range r.Events {
		switch e.Kind {
		case "mismatch":
			return fmt.Sprintf("spec-mismatch: %s(size=%d, offsets=%s) = %d, specification says %d", e.Str(0), e.Int(1), e.Str(2), e.Int(3), e.Int(4))
		case "enumerated":
			done = true
		}
	}
	if !done {
		return "enum-incomplete: the enumeration did not finish"
	}
	return ""
}

// rangeEnumCheck replays the scripted answers through a reference loop and compares the call
// sequence and the result (C02: commit after the callback; rollback exactly when Get, fn and
// Commit did not all succeed).
func rangeEnumCheck(r *vrt.Result) string {
	if m := baseCheck(r, true, false, true); m != "" {
		return m
	}
	var got []string
	ctxState := ""
	for _, e := range r.Events {
		switch e.Kind {
		case "ctx":
			ctxState = e.Str(0)
		case "get", "commit", "rollback", "fn", "ret":
			s := e.Kind
			for _, a := range e.Args {
				s += fmt.Sprint(" ", a)
			}
			got = append(got, s)
		}
	}
	// reference loop driven by the answers recorded in the log
	var want []string
	cancelled := ctxState == "cancelled"
	i := 0
	next := func() (string, bool) {
		for i < len(got) {
			s := got[i]
			i++
			return s, true
		}
		return "", false
	}
	index := 0
	bad := func(why string) string {
		return fmt.Sprintf("range-sequence: %s; observed calls: %s; expected prefix: %s", why, strings.Join(got, " | "), strings.Join(want, " | "))
	}
	expect := func(prefix string) (string, string) {
		s, ok := next()
		if !ok {
			return "", bad("Range stopped early, expected " + prefix)
		}
		if !strings.HasPrefix(s, prefix) {
			return "", bad("expected " + prefix + ", got " + s)
		}
		want = append(want, s)
		return s, ""
	}
	for {
		if ctxState != "nil" && cancelled {
			s, m := expect("ret err context canceled")
			_ = s
			if m != "" {
				return m
			}
			break
		}
		g, m := expect("get")
		if m != "" {
			return m
		}
		if strings.HasPrefix(g, "get err") {
			if _, m := expect("rollback"); m != "" {
				return m
			}
			if _, m := expect("ret err scripted failure"); m != "" {
				return m
			}
			break
		}
		f, m := expect(fmt.Sprintf("fn %d %d", index, index+1))
		if m != "" {
			return m
		}
		if strings.HasSuffix(f, "panic") {
			if _, m := expect("rollback"); m != "" {
				return m
			}
			if _, m := expect("ret panic scripted panic"); m != "" {
				return m
			}
			break
		}
		if strings.HasSuffix(f, "goexit") {
			// the callback never returned: nothing is committed and the value in flight is rolled back
			if _, m := expect("rollback"); m != "" {
				return m
			}
			if _, m := expect("ret goexit"); m != "" {
				return m
			}
			break
		}
		if strings.HasSuffix(f, "true+cancel") {
			cancelled = true
		}
		c, m := expect("commit")
		if m != "" {
			return m
		}
		if strings.HasPrefix(c, "commit err") {
			if _, m := expect("rollback"); m != "" {
				return m
			}
			if _, m := expect("ret err scripted failure"); m != "" {
				return m
			}
			break
		}
		if strings.Contains(f, "false") {
			if _, m := expect("ret err "); m != "" {
				return m
			}
			if last := want[len(want)-1]; strings.TrimSpace(last) != "ret err" {
				return bad("Range returned an error after fn returned false: " + last)
			}
			break
		}
		index++
	}
	if i != len(got) {
		return bad("extra calls after Range returned: " + strings.Join(got[i:], " | "))
	}
	return ""
}
